package webdav

import (
	"bytes"
	"context"
	"encoding/xml"
	"fmt"
	"io"
	"net/http/httptest"
	"os"
	"sort"
	"strconv"
	"strings"
	"testing"

	"pgregory.net/rapid"
	"verif/vp"
)

// C47: WebDAV dead properties round-trip through PROPPATCH and PROPFIND (memFS).
//
// One case = a pool of property names and a history of PROPPATCH / PROPFIND requests
// against a fixed small tree, all sent through Handler.ServeHTTP. Property values are
// generated as trees and serialised by the harness with varying (equivalent) XML
// syntax; what PROPFIND returns is parsed with the standard library decoder and
// compared with the tree after canonicalisation (namespaces resolved, attributes
// sorted, character data unescaped and merged, comments and PIs dropped).

const c47XMLNS = "http://www.w3.org/XML/1998/namespace"

type c47Name struct {
	Space string `json:"space"`
	Local string `json:"local"`
}

type c47Attr struct {
	Space string `json:"space"`
	Local string `json:"local"`
	Val   string `json:"val"`
}

type c47Node struct {
	Kind  int       `json:"kind"` // 0 text, 1 element, 2 comment, 3 processing instruction
	Text  string    `json:"text,omitempty"`
	Space string    `json:"space,omitempty"`
	Local string    `json:"local,omitempty"`
	Attrs []c47Attr `json:"attrs,omitempty"`
	Kids  []c47Node `json:"kids,omitempty"`
	NS    int       `json:"ns,omitempty"` // how the element's namespace is declared: 0 default ns, 1 own prefix, 2 prefix declared on the document element
}

type c47PropOp struct {
	Name int       `json:"name"` // index into the case's name pool (mod len)
	Val  []c47Node `json:"val,omitempty"`
	Lang string    `json:"lang,omitempty"`
	NS   int       `json:"ns,omitempty"`
}

type c47Block struct {
	Remove bool        `json:"remove"`
	Props  []c47PropOp `json:"props"`
}

type c47Op struct {
	Kind      string     `json:"kind"` // "patch" | "find"
	Res       int        `json:"res"`  // 0 /f, 1 /d, 2 /d/g, 3 /
	Blocks    []c47Block `json:"blocks,omitempty"`
	DefaultNS bool       `json:"default_ns,omitempty"` // request document uses xmlns="DAV:" instead of the D: prefix
	Live      string     `json:"live,omitempty"`       // patch: additionally tries to set this protected DAV: property
	Style     uint32     `json:"style,omitempty"`      // seed of the escaping choices
	Find      string     `json:"find,omitempty"`       // prop | allprop | propname | empty
	Depth     string     `json:"depth,omitempty"`
	Ask       []int      `json:"ask,omitempty"`
}

type c47Case struct {
	Names []c47Name `json:"names"`
	Ops   []c47Op   `json:"ops"`
}

var c47Res = []struct {
	path, href string
	kids, desc []int // children (Depth: 1) and all descendants (Depth: infinity)
}{
	{"/f", "/f", nil, nil},
	{"/d", "/d/", []int{2}, []int{2}},
	{"/d/g", "/d/g", nil, nil},
	{"/", "/", []int{0, 1}, []int{0, 1, 2}},
}

// ---------------------------------------------------------------- generic XML tree + canonical form

type c47X struct {
	IsText bool
	Text   string
	Name   xml.Name
	Attrs  []xml.Attr
	Kids   []*c47X
}

func c47IsNSDecl(a xml.Attr) bool {
	return a.Name.Space == "xmlns" || (a.Name.Space == "" && a.Name.Local == "xmlns")
}

func c47NormSpace(s string) string {
	if s == "xml" {
		return c47XMLNS
	}
	return s
}

func c47Canon(kids []*c47X) string {
	var b strings.Builder
	pending := ""
	flush := func() {
		if pending != "" {
			b.WriteString("T" + strconv.Quote(pending))
			pending = ""
		}
	}
	for _, k := range kids {
		if k.IsText {
			pending += k.Text
			continue
		}
		flush()
		fmt.Fprintf(&b, "<{%s}%s", c47NormSpace(k.Name.Space), k.Name.Local)
		var as []string
		for _, a := range k.Attrs {
			if c47IsNSDecl(a) {
				continue
			}
			as = append(as, fmt.Sprintf(" {%s}%s=%s", c47NormSpace(a.Name.Space), a.Name.Local, strconv.Quote(a.Value)))
		}
		sort.Strings(as)
		b.WriteString(strings.Join(as, ""))
		b.WriteString(">")
		b.WriteString(c47Canon(k.Kids))
		b.WriteString("</>")
	}
	flush()
	return b.String()
}

func c47Parse(body []byte) (*c47X, error) {
	d := xml.NewDecoder(bytes.NewReader(body))
	root := &c47X{}
	stack := []*c47X{root}
	for {
		tok, err := d.Token()
		if err == io.EOF {
			break
		}
		if err != nil {
			return nil, err
		}
		top := stack[len(stack)-1]
		switch t := tok.(type) {
		case xml.StartElement:
			n := &c47X{Name: t.Name, Attrs: append([]xml.Attr(nil), t.Attr...)}
			top.Kids = append(top.Kids, n)
			stack = append(stack, n)
		case xml.EndElement:
			stack = stack[:len(stack)-1]
		case xml.CharData:
			top.Kids = append(top.Kids, &c47X{IsText: true, Text: string(t)})
		}
	}
	if len(stack) != 1 {
		return nil, fmt.Errorf("unbalanced document")
	}
	return root, nil
}

// c47ModelTree converts a generated value to the generic tree (comments and PIs are
// not part of a property value: RFC 4918 section 4.3 / 17).
func c47ModelTree(ns []c47Node) []*c47X {
	var out []*c47X
	for _, n := range ns {
		switch n.Kind {
		case 0:
			out = append(out, &c47X{IsText: true, Text: n.Text})
		case 1:
			x := &c47X{Name: xml.Name{Space: n.Space, Local: n.Local}, Kids: c47ModelTree(n.Kids)}
			for _, a := range n.Attrs {
				x.Attrs = append(x.Attrs, xml.Attr{Name: xml.Name{Space: a.Space, Local: a.Local}, Value: a.Val})
			}
			out = append(out, x)
		}
	}
	return out
}

// ---------------------------------------------------------------- serialiser (harness side, independent of the package)

type c47Scope struct {
	def      string
	prefixes map[string]string // namespace -> prefix in scope
}

type c47Ser struct {
	b   strings.Builder
	rnd uint32
	seq int
}

func (s *c47Ser) pick(n int) int {
	s.rnd = s.rnd*1664525 + 1013904223
	return int(s.rnd>>16) % n
}

func (s *c47Ser) ref(r rune) string {
	if s.pick(2) == 0 {
		return fmt.Sprintf("&#%d;", r)
	}
	return fmt.Sprintf("&#x%X;", r)
}

func (s *c47Ser) text(t string) {
	if t != "" && !strings.Contains(t, "]]>") && !strings.ContainsRune(t, '\r') && s.pick(6) == 0 {
		s.b.WriteString("<![CDATA[" + t + "]]>")
		return
	}
	for _, r := range t {
		switch r {
		case '<':
			s.b.WriteString([]string{"&lt;", "&#60;", "&#x3c;"}[s.pick(3)])
		case '&':
			s.b.WriteString([]string{"&amp;", "&#38;"}[s.pick(2)])
		case '>':
			if s.pick(2) == 0 && !strings.HasSuffix(s.b.String(), "]") {
				s.b.WriteString(">")
			} else {
				s.b.WriteString([]string{"&gt;", "&#62;"}[s.pick(2)])
			}
		case '\r':
			s.b.WriteString([]string{"&#13;", "&#xD;"}[s.pick(2)])
		case '"':
			s.b.WriteString([]string{"\"", "&quot;", "&#34;"}[s.pick(3)])
		case '\'':
			s.b.WriteString([]string{"'", "&apos;", "&#39;"}[s.pick(3)])
		default:
			if s.pick(8) == 0 {
				s.b.WriteString(s.ref(r))
			} else {
				s.b.WriteRune(r)
			}
		}
	}
}

func (s *c47Ser) attrVal(v string) {
	for _, r := range v {
		switch r {
		case '<':
			s.b.WriteString("&lt;")
		case '&':
			s.b.WriteString("&amp;")
		case '"':
			s.b.WriteString("&quot;")
		case '>':
			// A literal "]]>" is legal inside an attribute value, but the package's
			// forked decoder rejects it (400); the statement speaks of XML-escaped
			// values, so that spelling is not generated (reported as an observation).
			if strings.HasSuffix(s.b.String(), "]]") || s.pick(2) == 0 {
				s.b.WriteString("&gt;")
			} else {
				s.b.WriteString(">")
			}
		case '\t', '\n', '\r':
			s.b.WriteString(s.ref(r))
		default:
			s.b.WriteRune(r)
		}
	}
}

// element writes <name attrs>kids</name> choosing how namespaces are declared.
func (s *c47Ser) element(name c47Name, attrs []c47Attr, kids []c47Node, style int, sc c47Scope, inner func(c47Scope)) {
	nsc := c47Scope{def: sc.def, prefixes: map[string]string{}}
	for k, v := range sc.prefixes {
		nsc.prefixes[k] = v
	}
	var decls []string
	declare := func(space string) string {
		s.seq++
		p := "n" + strconv.Itoa(s.seq)
		nsc.prefixes[space] = p
		var vb c47Ser
		vb.rnd = s.rnd
		vb.attrVal(space)
		decls = append(decls, " xmlns:"+p+"=\""+vb.b.String()+"\"")
		return p
	}
	qname := name.Local
	switch {
	case name.Space == "":
		if nsc.def != "" {
			decls = append(decls, ` xmlns=""`)
			nsc.def = ""
		}
	case style == 0:
		if nsc.def != name.Space {
			var vb c47Ser
			vb.rnd = s.rnd
			vb.attrVal(name.Space)
			decls = append(decls, " xmlns=\""+vb.b.String()+"\"")
			nsc.def = name.Space
		}
	case style == 2 && sc.prefixes[name.Space] != "":
		qname = sc.prefixes[name.Space] + ":" + name.Local
	default:
		qname = declare(name.Space) + ":" + name.Local
	}
	type qa struct{ q, v string }
	var qas []qa
	for _, a := range attrs {
		switch {
		case a.Space == "":
			qas = append(qas, qa{a.Local, a.Val})
		case a.Space == c47XMLNS:
			qas = append(qas, qa{"xml:" + a.Local, a.Val})
		case nsc.prefixes[a.Space] != "":
			qas = append(qas, qa{nsc.prefixes[a.Space] + ":" + a.Local, a.Val})
		default:
			qas = append(qas, qa{declare(a.Space) + ":" + a.Local, a.Val})
		}
	}
	s.b.WriteString("<" + qname)
	for _, d := range decls {
		s.b.WriteString(d)
	}
	for _, a := range qas {
		s.b.WriteString(" " + a.q + "=\"")
		s.attrVal(a.v)
		s.b.WriteString("\"")
	}
	if len(kids) == 0 && inner == nil && s.pick(2) == 0 {
		s.b.WriteString("/>")
		return
	}
	s.b.WriteString(">")
	if inner != nil {
		inner(nsc)
	}
	s.nodes(kids, nsc)
	s.b.WriteString("</" + qname + ">")
}

func (s *c47Ser) nodes(ns []c47Node, sc c47Scope) {
	for _, n := range ns {
		switch n.Kind {
		case 0:
			s.text(n.Text)
		case 1:
			s.element(c47Name{n.Space, n.Local}, n.Attrs, n.Kids, n.NS, sc, nil)
		case 2:
			s.b.WriteString("<!-- note -->")
		case 3:
			s.b.WriteString("<?pi data?>")
		}
	}
}

func (c c47Case) name(i int) c47Name {
	if i < 0 {
		i = -i
	}
	return c.Names[i%len(c.Names)]
}

func c47PatchBody(c c47Case, op c47Op) string {
	s := &c47Ser{rnd: op.Style}
	root := c47Scope{prefixes: map[string]string{}}
	s.b.WriteString(`<?xml version="1.0" encoding="utf-8"?>`)
	dav := func(l string) string { return "D:" + l }
	if op.DefaultNS {
		dav = func(l string) string { return l }
		s.b.WriteString(`<propertyupdate xmlns="DAV:"`)
		root.def = "DAV:"
	} else {
		s.b.WriteString(`<D:propertyupdate xmlns:D="DAV:"`)
		root.prefixes["DAV:"] = "D"
	}
	// prefixes declared on the document element, for elements/attributes using style 2
	seen := map[string]bool{"": true, "DAV:": !op.DefaultNS, c47XMLNS: true}
	var collect func(ns []c47Node)
	var spaces []string
	add := func(sp string) {
		if !seen[sp] {
			seen[sp] = true
			spaces = append(spaces, sp)
		}
	}
	collect = func(ns []c47Node) {
		for _, n := range ns {
			if n.Kind == 1 {
				add(n.Space)
				for _, a := range n.Attrs {
					add(a.Space)
				}
				collect(n.Kids)
			}
		}
	}
	for _, b := range op.Blocks {
		for _, p := range b.Props {
			add(c.name(p.Name).Space)
			collect(p.Val)
		}
	}
	for i, sp := range spaces {
		if (op.Style>>uint(i))&1 == 1 {
			continue // not every namespace gets a document-level prefix
		}
		p := "r" + strconv.Itoa(i)
		root.prefixes[sp] = p
		s.b.WriteString(" xmlns:" + p + "=\"")
		s.attrVal(sp)
		s.b.WriteString("\"")
	}
	s.b.WriteString(">")
	writeBlock := func(remove bool, body func()) {
		tag := "set"
		if remove {
			tag = "remove"
		}
		s.b.WriteString("<" + dav(tag) + "><" + dav("prop") + ">")
		body()
		s.b.WriteString("</" + dav("prop") + "></" + dav(tag) + ">")
	}
	for bi, b := range op.Blocks {
		b := b
		writeBlock(b.Remove, func() {
			if bi == 0 && op.Live != "" && !b.Remove {
				s.element(c47Name{"DAV:", op.Live}, nil, []c47Node{{Kind: 0, Text: "x"}}, 2, root, nil)
			}
			for _, p := range b.Props {
				var attrs []c47Attr
				if p.Lang != "" {
					attrs = append(attrs, c47Attr{Space: c47XMLNS, Local: "lang", Val: p.Lang})
				}
				val := p.Val
				if b.Remove {
					val = nil
				}
				s.element(c.name(p.Name), attrs, val, p.NS, root, nil)
			}
		})
	}
	if op.DefaultNS {
		s.b.WriteString(`</propertyupdate>`)
	} else {
		s.b.WriteString(`</D:propertyupdate>`)
	}
	return s.b.String()
}

func c47FindBody(c c47Case, op c47Op) string {
	switch op.Find {
	case "empty":
		return ""
	case "allprop":
		return `<D:propfind xmlns:D="DAV:"><D:allprop/></D:propfind>`
	case "propname":
		return `<propfind xmlns="DAV:"><propname/></propfind>`
	}
	s := &c47Ser{rnd: op.Style}
	root := c47Scope{prefixes: map[string]string{"DAV:": "D"}}
	s.b.WriteString(`<D:propfind xmlns:D="DAV:"><D:prop>`)
	for _, i := range op.Ask {
		s.element(c.name(i), nil, nil, int(op.Style>>3)%2, root, nil)
	}
	s.b.WriteString(`</D:prop></D:propfind>`)
	return s.b.String()
}

// ---------------------------------------------------------------- multistatus reader

type c47RProp struct {
	Name  c47Name
	Canon string
}

type c47RStat struct {
	Status int
	Props  []c47RProp
}

func c47Multistatus(body []byte) (map[string][]c47RStat, error) {
	doc, err := c47Parse(body)
	if err != nil {
		return nil, fmt.Errorf("response is not well-formed XML: %v", err)
	}
	var ms *c47X
	for _, k := range doc.Kids {
		if !k.IsText {
			ms = k
		}
	}
	if ms == nil || ms.Name != (xml.Name{Space: "DAV:", Local: "multistatus"}) {
		return nil, fmt.Errorf("document element is not DAV:multistatus")
	}
	out := map[string][]c47RStat{}
	for _, resp := range ms.Kids {
		if resp.IsText || resp.Name != (xml.Name{Space: "DAV:", Local: "response"}) {
			continue
		}
		href := ""
		var stats []c47RStat
		for _, k := range resp.Kids {
			if k.IsText || k.Name.Space != "DAV:" {
				continue
			}
			switch k.Name.Local {
			case "href":
				for _, t := range k.Kids {
					if t.IsText {
						href += t.Text
					}
				}
			case "propstat":
				var st c47RStat
				for _, pk := range k.Kids {
					if pk.IsText || pk.Name.Space != "DAV:" {
						continue
					}
					switch pk.Name.Local {
					case "status":
						txt := ""
						for _, t := range pk.Kids {
							if t.IsText {
								txt += t.Text
							}
						}
						f := strings.Fields(txt)
						if len(f) >= 2 {
							st.Status, _ = strconv.Atoi(f[1])
						}
					case "prop":
						for _, p := range pk.Kids {
							if p.IsText {
								continue
							}
							st.Props = append(st.Props, c47RProp{
								Name:  c47Name{Space: p.Name.Space, Local: p.Name.Local},
								Canon: c47Canon(p.Kids),
							})
						}
					}
				}
				stats = append(stats, st)
			}
		}
		out[href] = append(out[href], stats...)
	}
	return out, nil
}

// ---------------------------------------------------------------- property

type c47State struct {
	known   bool
	present bool
	canon   string
}

func c47IsLive(n c47Name) bool {
	_, ok := liveProps[xml.Name{Space: n.Space, Local: n.Local}]
	return ok
}

const (
	c47KeyUnqualified = "c47-unqualified-child-captured-by-default-ns"
	c47KeySameName    = "c47-value-contains-element-named-like-property"
	c47KeyRoot        = "c47-proppatch-on-root-collection-500"
)

func c47HasNamed(ns []c47Node, name c47Name) bool {
	for _, n := range ns {
		if n.Kind == 1 && (c47Name{n.Space, n.Local} == name || c47HasNamed(n.Kids, name)) {
			return true
		}
	}
	return false
}

func c47HasUnqualified(ns []c47Node) bool {
	for _, n := range ns {
		if n.Kind == 1 && (n.Space == "" || c47HasUnqualified(n.Kids)) {
			return true
		}
	}
	return false
}

// c47Known: predicates of the recorded findings.
func c47Known(c c47Case) string {
	if len(c.Names) == 0 {
		return ""
	}
	keys := map[string]bool{}
	for _, op := range c.Ops {
		for _, b := range op.Blocks {
			for _, p := range b.Props {
				// a value with an element in no namespace, set on a property whose
				// own namespace is neither empty nor DAV:
				if sp := c.name(p.Name).Space; !b.Remove && sp != "" && sp != "DAV:" && c47HasUnqualified(p.Val) {
					keys[c47KeyUnqualified] = true
				}
				// a value that contains an element with the property's own name
				if !b.Remove && c47HasNamed(p.Val, c.name(p.Name)) {
					keys[c47KeySameName] = true
				}
			}
		}
	}
	out := ""
	for _, k := range []string{c47KeyUnqualified, c47KeySameName} {
		if keys[k] {
			out += k + ","
		}
	}
	return out
}

func c47Prop(c c47Case, r *vp.Rec) error {
	if len(c.Names) == 0 {
		r.Discard("no-names")
		return nil
	}
	ctx := context.Background()
	fs := NewMemFS()
	if err := fs.Mkdir(ctx, "/d", 0777); err != nil {
		return err
	}
	for _, p := range []string{"/f", "/d/g"} {
		f, err := fs.OpenFile(ctx, p, os.O_RDWR|os.O_CREATE, 0666)
		if err != nil {
			return err
		}
		f.Write([]byte("data"))
		f.Close()
	}
	h := &Handler{FileSystem: fs, LockSystem: NewMemLS()}
	model := make([]map[c47Name]c47State, len(c47Res))
	for i := range model {
		model[i] = map[c47Name]c47State{}
	}
	for _, n := range c.Names {
		for i := range model {
			model[i][n] = c47State{known: true}
		}
	}
	nontrivial := false

	for oi, op := range c.Ops {
		res := op.Res % len(c47Res)
		if res < 0 {
			res = 0
		}
		target := c47Res[res]
		switch op.Kind {
		case "patch":
			body := c47PatchBody(c, op)
			req := httptest.NewRequest("PROPPATCH", "/", strings.NewReader(body))
			req.URL.Path = target.path
			rec := httptest.NewRecorder()
			h.ServeHTTP(rec, req)
			where := fmt.Sprintf("op %d: PROPPATCH %s body %q -> %d %q", oi, target.path, body, rec.Code, rec.Body.String())
			conflict := op.Live != "" && len(op.Blocks) > 0 && !op.Blocks[0].Remove
			var ms map[string][]c47RStat
			if rec.Code == StatusMulti {
				var err error
				ms, err = c47Multistatus(rec.Body.Bytes())
				if err != nil {
					return fmt.Errorf("%s: %v", where, err)
				}
			}
			if conflict {
				// a protected property in the request: whether anything was applied is
				// outside the statement; the names involved become unknown
				r.Class("patch:with-protected-property")
				for _, b := range op.Blocks {
					for _, p := range b.Props {
						model[res][c.name(p.Name)] = c47State{}
					}
				}
				continue
			}
			if rec.Code != StatusMulti && res == 3 {
				// memFS does not allow its root to be opened for writing, which
				// PROPPATCH needs: nothing was set, so the statement says nothing
				// about this request. The model stays as it is.
				r.Class("patch:refused-on-root-collection")
				continue
			}
			if rec.Code != StatusMulti {
				return fmt.Errorf("%s: want 207 Multi-Status", where)
			}
			ok200 := map[c47Name]bool{}
			for _, sts := range ms {
				for _, st := range sts {
					if st.Status == 200 {
						for _, p := range st.Props {
							ok200[p.Name] = true
						}
					}
				}
			}
			for _, b := range op.Blocks {
				for _, p := range b.Props {
					n := c.name(p.Name)
					if !ok200[n] {
						return fmt.Errorf("%s: property {%s}%s is not reported with status 200", where, n.Space, n.Local)
					}
					if b.Remove {
						model[res][n] = c47State{known: true}
						r.Class("patch:remove")
					} else {
						model[res][n] = c47State{known: true, present: true, canon: c47Canon(c47ModelTree(p.Val))}
						r.Class("patch:set")
						c47Classify(p.Val, n.Space, r)
						if c47Interesting(p.Val, n.Space) {
							nontrivial = true
						}
					}
				}
			}
		case "find":
			body := c47FindBody(c, op)
			req := httptest.NewRequest("PROPFIND", "/", strings.NewReader(body))
			req.URL.Path = target.path
			if op.Depth != "" {
				req.Header.Set("Depth", op.Depth)
			}
			rec := httptest.NewRecorder()
			h.ServeHTTP(rec, req)
			where := fmt.Sprintf("op %d: PROPFIND(%s) %s Depth:%q -> %d", oi, op.Find, target.path, op.Depth, rec.Code)
			if rec.Code != StatusMulti {
				return fmt.Errorf("%s body %q: want 207 Multi-Status", where, rec.Body.String())
			}
			ms, err := c47Multistatus(rec.Body.Bytes())
			if err != nil {
				return fmt.Errorf("%s: %v; response %q", where, err, rec.Body.String())
			}
			scope := []int{res}
			switch op.Depth {
			case "1":
				scope = append(scope, target.kids...)
			case "", "infinity":
				scope = append(scope, target.desc...)
			}
			r.Class("find:" + op.Find)
			for _, ri := range scope {
				sts, ok := ms[c47Res[ri].href]
				if !ok {
					return fmt.Errorf("%s: no response element for %s; response %q", where, c47Res[ri].href, rec.Body.String())
				}
				got := map[c47Name]c47RProp{} // properties reported with 200
				for _, st := range sts {
					if st.Status == 200 {
						for _, p := range st.Props {
							got[p.Name] = p
						}
					}
				}
				var names []c47Name
				if op.Find == "prop" {
					for _, i := range op.Ask {
						names = append(names, c.name(i))
					}
				} else {
					names = c.Names
				}
				for _, n := range names {
					st := model[ri][n]
					if !st.known {
						continue
					}
					g, have := got[n]
					switch {
					case st.present && !have:
						return fmt.Errorf("%s: %s: property {%s}%s was set but is not returned; response %q", where, c47Res[ri].href, n.Space, n.Local, rec.Body.String())
					case !st.present && have:
						return fmt.Errorf("%s: %s: property {%s}%s was removed (or never set) but is returned; response %q", where, c47Res[ri].href, n.Space, n.Local, rec.Body.String())
					case st.present && op.Find != "propname" && g.Canon != st.canon:
						return fmt.Errorf("%s: %s: property {%s}%s value differs:\n set      %s\n returned %s\n response %q", where, c47Res[ri].href, n.Space, n.Local, st.canon, g.Canon, rec.Body.String())
					}
					if st.present {
						r.Class("find:checked-present")
					} else {
						r.Class("find:checked-absent")
					}
				}
				if op.Find != "prop" {
					// nothing but live properties and the modelled dead ones is listed
					for n := range got {
						if c47IsLive(n) {
							continue
						}
						if _, pooled := model[ri][n]; !pooled {
							return fmt.Errorf("%s: %s: unknown property {%s}%s returned; response %q", where, c47Res[ri].href, n.Space, n.Local, rec.Body.String())
						}
					}
				}
			}
		}
	}
	if nontrivial {
		r.NonTrivial()
	}
	return nil
}

// c47Interesting: the value has a character that must be escaped, or a nested element
// whose namespace differs from its parent's.
func c47Interesting(ns []c47Node, parent string) bool {
	for _, n := range ns {
		switch n.Kind {
		case 0:
			if strings.ContainsAny(n.Text, "<>&\r") {
				return true
			}
		case 1:
			if n.Space != parent || c47Interesting(n.Kids, n.Space) {
				return true
			}
		}
	}
	return false
}

func c47Classify(ns []c47Node, parent string, r *vp.Rec) {
	if len(ns) == 0 {
		r.Class("value:empty")
	}
	var walk func(ns []c47Node, parent string, depth int)
	walk = func(ns []c47Node, parent string, depth int) {
		for _, n := range ns {
			switch n.Kind {
			case 0:
				if strings.ContainsAny(n.Text, "<>&") {
					r.Class("value:text-needs-escaping")
				}
				if strings.ContainsAny(n.Text, "\r\n\t") {
					r.Class("value:text-cr-lf-tab")
				}
				if strings.Contains(n.Text, "]]>") {
					r.Class("value:text-cdata-end")
				}
				for _, c := range n.Text {
					if c > 127 {
						r.Class("value:text-non-ascii")
						break
					}
				}
			case 1:
				r.Classf("value:element-depth-%d", depth)
				if n.Space != parent {
					r.Class("value:element-other-namespace")
				}
				for _, a := range n.Attrs {
					switch a.Space {
					case "":
						r.Class("value:attr-plain")
					case c47XMLNS:
						r.Class("value:attr-xml-lang")
					default:
						r.Class("value:attr-namespaced")
					}
				}
				walk(n.Kids, n.Space, depth+1)
			case 2, 3:
				r.Class("value:comment-or-pi")
			}
		}
	}
	walk(ns, parent, 1)
}

// ---------------------------------------------------------------- generator

var c47Spaces = []string{
	"urn:x", "urn:x", "http://example.com/ns", "http://example.com/ns/", "DAV:", "",
	"DAV", "dav:", "urn:a&b<c>\"'", "urn:é中", "http://example.com/xml", "urn:y z",
}

var c47Starts = []rune("abcxyzABZ_éΩя中")
var c47Chars = []rune("abcxyz09-._éΩя中·́")

func c47LocalGen() *rapid.Generator[string] {
	return rapid.Custom(func(t *rapid.T) string {
		if rapid.IntRange(0, 5).Draw(t, "stock") == 0 {
			return rapid.SampledFrom([]string{"getetag", "displayname", "prop", "D", "resourcetype", "href"}).Draw(t, "stockname")
		}
		s := string(rapid.SampledFrom(c47Starts).Draw(t, "start")) + string(rapid.SliceOfN(rapid.SampledFrom(c47Chars), 0, 6).Draw(t, "rest"))
		if strings.HasPrefix(strings.ToLower(s), "xml") {
			s = "_" + s
		}
		return s
	})
}

var c47TextRunes = []string{"a", "b", " ", " ", "<", ">", "&", "\"", "'", "\t", "\n", "\r", "é", "中", "\U0001F600", " ", "]]>", "&amp;", " ", "0"}

func c47TextGen() *rapid.Generator[string] {
	return rapid.Custom(func(t *rapid.T) string {
		return strings.Join(rapid.SliceOfN(rapid.SampledFrom(c47TextRunes), 1, 8).Draw(t, "text"), "")
	})
}

func c47AttrsGen(t *rapid.T) []c47Attr {
	n := rapid.SampledFrom([]int{0, 0, 0, 1, 1, 2}).Draw(t, "nattrs")
	var out []c47Attr
	seen := map[c47Name]bool{}
	for i := 0; i < n; i++ {
		a := c47Attr{Val: c47TextGen().Draw(t, "attrval")}
		switch rapid.IntRange(0, 5).Draw(t, "attrkind") {
		case 0:
			a.Space, a.Local = c47XMLNS, "lang"
			a.Val = rapid.SampledFrom([]string{"en", "de-CH", ""}).Draw(t, "lang")
		case 1, 2:
			a.Space = rapid.SampledFrom(c47Spaces).Draw(t, "attrspace")
			a.Local = c47LocalGen().Draw(t, "attrlocal")
		default:
			a.Local = c47LocalGen().Draw(t, "attrlocal")
		}
		k := c47Name{a.Space, a.Local}
		if seen[k] {
			continue
		}
		seen[k] = true
		out = append(out, a)
	}
	return out
}

func c47NodesGen(t *rapid.T, depth int, parent string) []c47Node {
	n := rapid.SampledFrom([]int{0, 1, 1, 1, 2, 2, 3}).Draw(t, "nnodes")
	var out []c47Node
	for i := 0; i < n; i++ {
		k := rapid.IntRange(0, 9).Draw(t, "nodekind")
		switch {
		case k <= 4 || depth >= 3 && k <= 7:
			out = append(out, c47Node{Kind: 0, Text: c47TextGen().Draw(t, "chars")})
		case k <= 7:
			e := c47Node{Kind: 1, NS: rapid.IntRange(0, 2).Draw(t, "nsstyle")}
			if rapid.Bool().Draw(t, "sameNS") {
				e.Space = parent
			} else {
				e.Space = rapid.SampledFrom(c47Spaces).Draw(t, "space")
			}
			e.Local = c47LocalGen().Draw(t, "local")
			e.Attrs = c47AttrsGen(t)
			e.Kids = c47NodesGen(t, depth+1, e.Space)
			out = append(out, e)
		case k == 8:
			out = append(out, c47Node{Kind: 2})
		default:
			out = append(out, c47Node{Kind: 3})
		}
	}
	return out
}

func c47Gen(t *rapid.T) c47Case {
	var c c47Case
	nn := rapid.IntRange(1, 4).Draw(t, "nnames")
	seen := map[c47Name]bool{}
	for i := 0; i < nn; i++ {
		n := c47Name{Space: rapid.SampledFrom(c47Spaces).Draw(t, "pspace"), Local: c47LocalGen().Draw(t, "plocal")}
		if c47IsLive(n) || seen[n] {
			n.Local += "_" + strconv.Itoa(i)
		}
		seen[n] = true
		c.Names = append(c.Names, n)
	}
	resGen := rapid.SampledFrom([]int{0, 0, 0, 0, 0, 0, 0, 0, 0, 0, 0, 0, 1, 1, 1, 1, 1, 1, 1, 1, 1, 2, 2, 2, 2, 2, 2, 2, 2, 2, 3})
	opGen := rapid.Custom(func(t *rapid.T) c47Op {
		op := c47Op{Res: resGen.Draw(t, "res"), Style: rapid.Uint32().Draw(t, "style")}
		if rapid.IntRange(0, 9).Draw(t, "opkind") < 6 {
			op.Kind = "patch"
			op.DefaultNS = rapid.IntRange(0, 3).Draw(t, "defaultns") == 0
			nb := rapid.SampledFrom([]int{1, 1, 1, 2, 3}).Draw(t, "nblocks")
			for b := 0; b < nb; b++ {
				blk := c47Block{Remove: rapid.IntRange(0, 3).Draw(t, "remove") == 0}
				np := rapid.SampledFrom([]int{1, 1, 2, 3}).Draw(t, "nprops")
				for p := 0; p < np; p++ {
					po := c47PropOp{Name: rapid.IntRange(0, nn-1).Draw(t, "pname"), NS: rapid.IntRange(0, 2).Draw(t, "pns")}
					if !blk.Remove {
						po.Val = c47NodesGen(t, 0, c.Names[po.Name].Space)
						if rapid.IntRange(0, 5).Draw(t, "haslang") == 0 {
							po.Lang = rapid.SampledFrom([]string{"en", "fr-CA"}).Draw(t, "plang")
						}
					}
					blk.Props = append(blk.Props, po)
				}
				op.Blocks = append(op.Blocks, blk)
			}
			if rapid.IntRange(0, 11).Draw(t, "live") == 0 {
				op.Live = rapid.SampledFrom([]string{"getetag", "displayname", "lockdiscovery", "creationdate"}).Draw(t, "livename")
			}
			return op
		}
		op.Kind = "find"
		op.Find = rapid.SampledFrom([]string{"prop", "prop", "prop", "allprop", "allprop", "propname", "empty"}).Draw(t, "find")
		op.Depth = rapid.SampledFrom([]string{"0", "0", "1", ""}).Draw(t, "depth")
		if op.Find == "prop" {
			op.Ask = rapid.SliceOfN(rapid.IntRange(0, nn-1), 1, 4).Draw(t, "ask")
		}
		return op
	})
	c.Ops = rapid.SliceOfN(opGen, 1, 10).Draw(t, "ops")
	// always end by looking at everything that was touched
	c.Ops = append(c.Ops,
		c47Op{Kind: "find", Res: 3, Find: "allprop", Depth: ""},
		c47Op{Kind: "find", Res: 3, Find: "propname", Depth: ""})
	return c
}

func TestVP_C47(t *testing.T) {
	vp.Run(t, vp.Spec[c47Case]{ID: "C47", Gen: c47Gen, Prop: c47Prop, Known: c47Known})
}
