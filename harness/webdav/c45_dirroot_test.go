package webdav

import (
	"context"
	"fmt"
	"os"
	"path/filepath"
	"sort"
	"strings"
	"testing"

	"pgregory.net/rapid"
	"verif/vp"
)

// C45: Dir keeps every request path inside its root.
//
// TestVP_C45     : Dir(root).resolve(name) for generated roots and names is rejected
//                  ("" ) exactly for names containing NUL and is otherwise a clean native
//                  path lexically inside the cleaned root (no filesystem access).
// TestVP_C45_fs  : a real Dir over a temporary root that is surrounded by canary files
//                  and directories; after Mkdir / OpenFile(O_CREATE) / Stat / RemoveAll /
//                  Rename with generated names nothing outside the root has changed, and
//                  RemoveAll / Rename on a name that means the root fail and change nothing.

var c45Segments = []string{
	"", ".", "..", "..", "a", "d", "keep.txt", "b c", "%2e%2e", "%2F", "..a", "a..", "...", "\\", "..\\", "\\..", "..\\..",
	"a\x00b", "\x00", "..\x00", "é", "~", strings.Repeat("x", 300),
}

type c45Name struct {
	Lead int      `json:"lead"` // number of leading slashes
	Segs []string `json:"segs"`
	Seps []int    `json:"seps"` // number of slashes after each segment but the last (1..3)
	Tail int      `json:"tail"` // number of trailing slashes
}

func (n c45Name) String() string {
	var b strings.Builder
	b.WriteString(strings.Repeat("/", n.Lead))
	for i, s := range n.Segs {
		b.WriteString(s)
		if i+1 < len(n.Segs) {
			k := 1
			if i < len(n.Seps) && n.Seps[i] > 0 {
				k = n.Seps[i]
			}
			b.WriteString(strings.Repeat("/", k))
		}
	}
	b.WriteString(strings.Repeat("/", n.Tail))
	return b.String()
}

func c45NameGen(maxDotDot int) *rapid.Generator[c45Name] {
	return rapid.Custom(func(t *rapid.T) c45Name {
		n := c45Name{
			Lead: rapid.SampledFrom([]int{0, 1, 1, 1, 2, 3}).Draw(t, "lead"),
			Segs: rapid.SliceOfN(rapid.SampledFrom(c45Segments), 0, 7).Draw(t, "segs"),
			Tail: rapid.SampledFrom([]int{0, 0, 0, 1, 2}).Draw(t, "tail"),
		}
		n.Seps = rapid.SliceOfN(rapid.SampledFrom([]int{1, 1, 1, 2, 3}), len(n.Segs), len(n.Segs)).Draw(t, "seps")
		if maxDotDot >= 0 {
			k := 0
			for i, s := range n.Segs {
				if s == ".." {
					k++
					if k > maxDotDot {
						n.Segs[i] = "."
					}
				}
			}
		}
		return n
	})
}

// c45Clean is the reference meaning of a slash-separated request name: the list of
// segments below the root ("." dropped, ".." goes up but never above the root).
func c45Clean(name string) []string {
	var segs []string
	for _, s := range strings.Split(name, "/") {
		switch s {
		case "", ".":
		case "..":
			if len(segs) > 0 {
				segs = segs[:len(segs)-1]
			}
		default:
			segs = append(segs, s)
		}
	}
	return segs
}

func c45HasDotDot(name string) bool {
	for _, s := range strings.Split(name, "/") {
		if s == ".." {
			return true
		}
	}
	return false
}

// c45Inside reports whether the native path p is clean and lexically at or below the
// clean native directory root.
func c45Inside(root, p string) bool {
	if p == "" || p != filepath.Clean(p) {
		return false
	}
	rel, err := filepath.Rel(root, p)
	if err != nil || rel == ".." || strings.HasPrefix(rel, "../") {
		return false
	}
	if root == "." {
		return !filepath.IsAbs(p) && p != ".." && !strings.HasPrefix(p, "../")
	}
	if p == root {
		return true
	}
	pre := root
	if !strings.HasSuffix(pre, "/") {
		pre += "/"
	}
	return strings.HasPrefix(p, pre)
}

// c45CheckResolve is the white-box part shared by both checks.
func c45CheckResolve(d Dir, name string) (p string, err error) {
	root := string(d)
	if root == "" {
		root = "."
	}
	root = filepath.Clean(root)
	p = d.resolve(name)
	if strings.Contains(name, "\x00") {
		if p != "" {
			return p, fmt.Errorf("Dir(%q).resolve(%q) = %q for a name containing NUL (want rejection)", string(d), name, p)
		}
		return p, nil
	}
	if !c45Inside(root, p) {
		return p, fmt.Errorf("Dir(%q).resolve(%q) = %q, which is not a clean path inside %q", string(d), name, p, root)
	}
	return p, nil
}

// ---- pure check ----

type c45Case struct {
	Name c45Name `json:"name"` // evaluated against every root in c45Roots
}

var c45Roots = []string{
	"/", "/srv/dav", "/srv/dav/", "/srv//dav/.", "/srv/x/../dav", "/srv/dav/..", "/..", "//", "", ".", "./", "rel/dir", "rel/dir/",
	"../up", "a/../..", "../..", "/srv/dav x", "/srv/..dav", "..", "./..",
}

func c45Gen(t *rapid.T) c45Case {
	return c45Case{Name: c45NameGen(-1).Draw(t, "name")}
}

func c45Prop(c c45Case, r *vp.Rec) error {
	name := c.Name.String()
	for _, root := range c45Roots {
		if _, err := c45CheckResolve(Dir(root), name); err != nil {
			return err
		}
	}
	nul := strings.Contains(name, "\x00")
	atRoot := len(c45Clean(name)) == 0
	switch {
	case nul:
		r.Class("nul-rejected")
	case atRoot:
		r.Class("resolves-to-root")
	default:
		r.Class("below-root")
	}
	if c45HasDotDot(name) {
		r.Class("has-dotdot")
	}
	if strings.Contains(name, "\\") {
		r.Class("has-backslash")
	}
	if !nul && (c45HasDotDot(name) || atRoot) {
		r.NonTrivial()
	}
	return nil
}

func TestVP_C45(t *testing.T) {
	vp.Run(t, vp.Spec[c45Case]{ID: "C45", Gen: c45Gen, Prop: c45Prop})
}

// ---- filesystem check with canaries ----

type c45FSOp struct {
	Kind  string  `json:"kind"` // mkdir | create | open | stat | removeall | rename
	Name  c45Name `json:"name"`
	Name2 c45Name `json:"name2"` // rename target
}

type c45FSCase struct {
	RootForm int       `json:"root_form"`
	Ops      []c45FSOp `json:"ops"`
}

// the root is three levels below the per-case base directory and names carry at
// most c45MaxUp ".." segments, so that even a Dir that did not confine names at all
// could not reach anything outside the base directory.
const c45MaxUp = 3

func c45FSGen(t *rapid.T) c45FSCase {
	nm := c45NameGen(c45MaxUp)
	// names that mean the root itself, to aim at the root-refusal clause
	rootName := rapid.Custom(func(t *rapid.T) c45Name {
		return rapid.SampledFrom([]c45Name{
			{}, {Lead: 1}, {Lead: 2}, {Segs: []string{"."}}, {Segs: []string{".."}}, {Lead: 1, Segs: []string{".."}},
			{Lead: 1, Segs: []string{"d", ".."}, Seps: []int{1}}, {Segs: []string{"a", "..", ".."}, Seps: []int{1, 2}},
			{Lead: 1, Segs: []string{"."}, Tail: 1}, {Lead: 1, Segs: []string{"..", "..", ".."}, Seps: []int{1, 1}},
		}).Draw(t, "rootName")
	})
	anyName := rapid.Custom(func(t *rapid.T) c45Name {
		if rapid.IntRange(0, 4).Draw(t, "aimAtRoot") == 0 {
			return rootName.Draw(t, "r")
		}
		return nm.Draw(t, "n")
	})
	op := rapid.Custom(func(t *rapid.T) c45FSOp {
		return c45FSOp{
			Kind:  rapid.SampledFrom([]string{"mkdir", "create", "open", "stat", "removeall", "removeall", "rename", "rename"}).Draw(t, "kind"),
			Name:  anyName.Draw(t, "name"),
			Name2: anyName.Draw(t, "name2"),
		}
	})
	return c45FSCase{RootForm: rapid.IntRange(0, 6).Draw(t, "rootForm"), Ops: rapid.SliceOfN(op, 1, 8).Draw(t, "ops")}
}

// c45Snapshot lists everything below dir except the subtree skip: path, kind, size
// and modification time (any create, remove, rename or write below dir changes it),
// plus file contents when deep is set.
func c45Snapshot(dir, skip string, deep bool) (string, error) {
	var out []string
	err := filepath.Walk(dir, func(p string, info os.FileInfo, err error) error {
		if err != nil {
			return err
		}
		if skip != "" && p == skip {
			out = append(out, p+" = root")
			return filepath.SkipDir
		}
		if info.IsDir() {
			if deep {
				out = append(out, p+" = dir")
			} else {
				out = append(out, fmt.Sprintf("%s = dir %d", p, info.ModTime().UnixNano()))
			}
			return nil
		}
		if !deep {
			out = append(out, fmt.Sprintf("%s = file %v %d %d", p, info.Mode(), info.Size(), info.ModTime().UnixNano()))
			return nil
		}
		b, err := os.ReadFile(p)
		if err != nil {
			return err
		}
		out = append(out, fmt.Sprintf("%s = file:%q", p, b))
		return nil
	})
	sort.Strings(out)
	return strings.Join(out, "\n"), err
}

// The sandbox <tmp>/c45-sandbox-<pid>/p/q/root with its canaries is built once per
// process and verified (names, kinds, contents) at the start of every case; it is
// rebuilt when a previous case changed it.
var c45Box struct {
	base        string
	outside     []string // the entries outside the root (directories and canary files)
	inside      []string // the root and its initial content
	pristineOut string   // lstat fingerprints right after (re)building
	pristineIn  string
}

// c45Diff shows the lines that differ between two fingerprints.
func c45Diff(before, after string) string {
	in := func(list []string, x string) bool {
		for _, l := range list {
			if l == x {
				return true
			}
		}
		return false
	}
	b, a := strings.Split(before, "\n"), strings.Split(after, "\n")
	var out []string
	for _, l := range b {
		if !in(a, l) {
			out = append(out, "- "+l)
		}
	}
	for _, l := range a {
		if !in(b, l) {
			out = append(out, "+ "+l)
		}
	}
	return strings.Join(out, "\n")
}

// c45Lstat fingerprints the given paths: kind, size, modification time. A directory's
// modification time changes whenever an entry is added to, removed from or renamed in
// it, a file's when it is written, so with the fixed list of sandbox entries this
// detects every change without walking the tree.
func c45Lstat(paths []string) string {
	var b strings.Builder
	for _, p := range paths {
		fi, err := os.Lstat(p)
		if err != nil {
			fmt.Fprintf(&b, "%s: %v\n", p, err)
			continue
		}
		if fi.IsDir() {
			fmt.Fprintf(&b, "%s: dir mtime=%d\n", p, fi.ModTime().UnixNano())
		} else {
			fmt.Fprintf(&b, "%s: %v size=%d mtime=%d\n", p, fi.Mode(), fi.Size(), fi.ModTime().UnixNano())
		}
	}
	return b.String()
}

func c45Sandbox() (base, q, root string, err error) {
	if c45Box.base == "" {
		b := filepath.Join(os.TempDir(), fmt.Sprintf("c45-sandbox-%d", os.Getpid()))
		os.RemoveAll(b)
		if err := os.MkdirAll(b, 0o755); err != nil {
			return "", "", "", err
		}
		if b, err = filepath.EvalSymlinks(b); err != nil {
			return "", "", "", err
		}
		c45Box.base = b
	}
	base = c45Box.base
	q = filepath.Join(base, "p", "q")
	root = filepath.Join(q, "root")
	outsideOK := c45Box.pristineOut != "" && c45Lstat(c45Box.outside) == c45Box.pristineOut
	if outsideOK && c45Lstat(c45Box.inside) == c45Box.pristineIn {
		return base, q, root, nil
	}
	write := func(files ...string) error {
		for _, f := range files {
			if err := os.WriteFile(f, []byte("canary "+filepath.Base(f)), 0o644); err != nil {
				return err
			}
		}
		return nil
	}
	if !outsideOK {
		ents, _ := os.ReadDir(base)
		for _, e := range ents {
			if err := os.RemoveAll(filepath.Join(base, e.Name())); err != nil {
				return "", "", "", err
			}
		}
		for _, d := range []string{filepath.Join(q, "sib"), filepath.Join(q, "root2"), filepath.Join(q, "roo")} {
			if err := os.MkdirAll(d, 0o755); err != nil {
				return "", "", "", err
			}
		}
		if err := write(filepath.Join(base, "outer.txt"), filepath.Join(base, "p", "mid.txt"), filepath.Join(q, "sib", "s.txt"),
			filepath.Join(q, "root2", "r.txt"), filepath.Join(q, "root.txt"), filepath.Join(q, "keep.txt"), filepath.Join(q, "d")); err != nil {
			return "", "", "", err
		}
	}
	// the root and its initial content are rebuilt whenever anything in it changed
	if err := os.RemoveAll(root); err != nil {
		return "", "", "", err
	}
	if err := os.MkdirAll(filepath.Join(root, "d"), 0o755); err != nil {
		return "", "", "", err
	}
	if err := write(filepath.Join(root, "keep.txt"), filepath.Join(root, "d", "f.txt")); err != nil {
		return "", "", "", err
	}
	c45Box.outside, c45Box.inside = nil, nil
	err = filepath.Walk(base, func(p string, info os.FileInfo, err error) error {
		if err != nil {
			return err
		}
		if p != root && !strings.HasPrefix(p, root+"/") {
			c45Box.outside = append(c45Box.outside, p)
		} else {
			c45Box.inside = append(c45Box.inside, p)
		}
		return nil
	})
	c45Box.pristineOut = c45Lstat(c45Box.outside)
	c45Box.pristineIn = c45Lstat(c45Box.inside)
	return base, q, root, err
}

func c45FSProp(c c45FSCase, r *vp.Rec) (err error) {
	for _, o := range c.Ops {
		for _, n := range []c45Name{o.Name, o.Name2} {
			k := 0
			for _, s := range strings.Split(n.String(), "/") {
				if s == ".." {
					k++
				}
			}
			if k > c45MaxUp {
				r.Discard("too many .. segments for the sandbox depth")
				return nil
			}
		}
	}
	_, q, root, err := c45Sandbox()
	if err != nil {
		return fmt.Errorf("harness: cannot build the sandbox: %v", err)
	}

	var d Dir
	chdir := ""
	switch c.RootForm {
	case 0:
		d = Dir(root)
	case 1:
		d = Dir(root + "/")
	case 2:
		d = Dir(filepath.Join(q, "sib") + "/.././root/.")
	case 3:
		d, chdir = Dir(""), root
	case 4:
		d, chdir = Dir("."), root
	case 5:
		d, chdir = Dir("../root"), filepath.Join(q, "sib")
	default:
		d, chdir = Dir("root"), q
	}
	r.Classf("root-form-%d", c.RootForm)
	if chdir != "" {
		old, err := os.Getwd()
		if err != nil {
			return nil
		}
		if err := os.Chdir(chdir); err != nil {
			return nil
		}
		defer os.Chdir(old)
	}

	outside0 := c45Lstat(c45Box.outside)
	ctx := context.Background()
	nontrivial := false
	for i, o := range c.Ops {
		n1, n2 := o.Name.String(), o.Name2.String()
		where := fmt.Sprintf("op %d %s(%q", i, o.Kind, n1)
		if o.Kind == "rename" {
			where += fmt.Sprintf(", %q", n2)
		}
		where += fmt.Sprintf(") on Dir(%q)", string(d))

		// white box first: never hand the os package a path outside the root
		names := []string{n1}
		if o.Kind == "rename" {
			names = append(names, n2)
		}
		nul, atRoot := false, false
		for _, n := range names {
			if _, err := c45CheckResolve(d, n); err != nil {
				return fmt.Errorf("%s: %v", where, err)
			}
			isNul := strings.Contains(n, "\x00")
			nul = nul || isNul
			if !isNul && len(c45Clean(n)) == 0 {
				atRoot = true
			}
			if !isNul && (c45HasDotDot(n) || len(c45Clean(n)) == 0) {
				nontrivial = true
			}
		}
		inside0 := ""
		if atRoot || nul {
			if inside0, err = c45Snapshot(root, "", false); err != nil {
				return fmt.Errorf("harness: snapshot: %v", err)
			}
		}

		var opErr error
		switch o.Kind {
		case "mkdir":
			opErr = d.Mkdir(ctx, n1, 0o755)
		case "create", "open":
			flag := os.O_RDONLY
			if o.Kind == "create" {
				flag = os.O_RDWR | os.O_CREATE
			}
			f, e := d.OpenFile(ctx, n1, flag, 0o644)
			if e == nil {
				if o.Kind == "create" {
					f.Write([]byte("w"))
				}
				f.Close()
			}
			opErr = e
		case "stat":
			_, opErr = d.Stat(ctx, n1)
		case "removeall":
			opErr = d.RemoveAll(ctx, n1)
		case "rename":
			opErr = d.Rename(ctx, n1, n2)
		default:
			return fmt.Errorf("bad op kind %q", o.Kind)
		}

		if nul {
			r.Class("op-with-nul-name")
			if opErr == nil {
				return fmt.Errorf("%s: succeeded although a name contains NUL", where)
			}
		}
		if atRoot && !nul && (o.Kind == "removeall" || o.Kind == "rename") {
			r.Class(o.Kind + "-on-root")
			if opErr == nil {
				return fmt.Errorf("%s: succeeded although it operates on the root itself", where)
			}
		}
		if (atRoot && (o.Kind == "removeall" || o.Kind == "rename")) || nul {
			inside1, err := c45Snapshot(root, "", false)
			if err != nil {
				return fmt.Errorf("%s: the root directory is damaged: %v", where, err)
			}
			if inside1 != inside0 {
				return fmt.Errorf("%s: refused operation changed the tree:\n%s", where, c45Diff(inside0, inside1))
			}
		}
		if outside1 := c45Lstat(c45Box.outside); outside1 != outside0 {
			return fmt.Errorf("%s (returned error: %v): something outside the root changed:\n%s", where, opErr, c45Diff(outside0, outside1))
		}
		if opErr == nil {
			r.Class(o.Kind + "-ok")
		} else {
			r.Class(o.Kind + "-err")
		}
	}
	if nontrivial {
		r.NonTrivial()
	}
	return nil
}

func TestVP_C45_fs(t *testing.T) {
	defer func() {
		if c45Box.base != "" {
			os.RemoveAll(c45Box.base)
		}
	}()
	vp.Run(t, vp.Spec[c45FSCase]{ID: "C45", Sub: "fs", Gen: c45FSGen, Prop: c45FSProp})
}
