package webdav

import (
	"bytes"
	"context"
	"encoding/json"
	"fmt"
	"io"
	"os"
	"path"
	"path/filepath"
	"sort"
	"strings"
	"testing"

	"pgregory.net/rapid"
	"verif/vp"
)

// C44: NewMemFS agrees with the native filesystem (a Dir over a fresh directory).
//
// A generated history of Mkdir / OpenFile / Write / Read / Seek / Readdir / Rename /
// RemoveAll / Stat calls is applied to NewMemFS() and to Dir(<fresh temp dir>). After
// every call success/failure must agree, data returned by Read and offsets returned
// by Seek must agree, and after every call that can change something the whole tree
// (names, kinds, file contents) must agree. The clauses "renaming a directory into
// its own subtree, renaming or removing the root always fail" are asserted on memFS
// directly. Renaming over an existing entry is exempt (OS specific).
//
// Input classes in which memFS is known to diverge are recognised from the call and
// the *native* side's state and result only (c44Situation); they are the predicates
// of the C44 entries in KNOWN_FINDINGS.json.

type c44Op struct {
	Kind   string `json:"kind"` // mkdir open write read seek readdir fstat rename removeall stat
	Name   string `json:"name,omitempty"`
	Name2  string `json:"name2,omitempty"` // rename target
	Acc    int    `json:"acc,omitempty"`   // open: 0 O_RDONLY, 1 O_WRONLY, 2 O_RDWR
	Create bool   `json:"create,omitempty"`
	Excl   bool   `json:"excl,omitempty"`
	Trunc  bool   `json:"trunc,omitempty"`
	Append bool   `json:"append,omitempty"`
	Sync   bool   `json:"sync,omitempty"`
	H      int    `json:"h,omitempty"`      // handle operations: index (mod n) into the handles opened so far
	Data   []byte `json:"data,omitempty"`   // write
	N      int    `json:"n,omitempty"`      // read: buffer size (>= 1); readdir: count
	Off    int64  `json:"off,omitempty"`    // seek
	Whence int    `json:"whence,omitempty"` // seek
}

type c44Case struct {
	Wild bool    `json:"wild"` // generator did not steer away from the known divergence classes
	Ops  []c44Op `json:"ops"`
}

func (o c44Op) flag() int {
	f := []int{os.O_RDONLY, os.O_WRONLY, os.O_RDWR}[o.Acc%3]
	if o.Create {
		f |= os.O_CREATE
	}
	if o.Excl {
		f |= os.O_EXCL
	}
	if o.Trunc {
		f |= os.O_TRUNC
	}
	if o.Append {
		f |= os.O_APPEND
	}
	if o.Sync {
		f |= os.O_SYNC
	}
	return f
}

func (o c44Op) String() string {
	switch o.Kind {
	case "mkdir", "removeall", "stat":
		return fmt.Sprintf("%s(%q)", o.Kind, o.Name)
	case "rename":
		return fmt.Sprintf("rename(%q, %q)", o.Name, o.Name2)
	case "open":
		fl := []string{"O_RDONLY", "O_WRONLY", "O_RDWR"}[o.Acc%3]
		for _, x := range []struct {
			on bool
			s  string
		}{{o.Create, "O_CREATE"}, {o.Excl, "O_EXCL"}, {o.Trunc, "O_TRUNC"}, {o.Append, "O_APPEND"}, {o.Sync, "O_SYNC"}} {
			if x.on {
				fl += "|" + x.s
			}
		}
		return fmt.Sprintf("open(%q, %s)", o.Name, fl)
	case "write":
		return fmt.Sprintf("h%d.write(%d bytes)", o.H, len(o.Data))
	case "read":
		return fmt.Sprintf("h%d.read(%d)", o.H, o.N)
	case "seek":
		return fmt.Sprintf("h%d.seek(%d, %d)", o.H, o.Off, o.Whence)
	case "readdir":
		return fmt.Sprintf("h%d.readdir(%d)", o.H, o.N)
	case "fstat":
		return fmt.Sprintf("h%d.stat()", o.H)
	}
	return o.Kind
}

// c44CleanPath is the harness's own meaning of a request name: "/" + the segments
// left after dropping "" and "." and resolving ".." (the root is its own parent).
func c44CleanPath(name string) string {
	var segs []string
	for _, s := range strings.Split(name, "/") {
		switch s {
		case "", ".":
		case "..":
			if len(segs) > 0 {
				segs = segs[:len(segs)-1]
			}
		default:
			segs = append(segs, s)
		}
	}
	return "/" + strings.Join(segs, "/")
}

func c44Under(dir, p string) bool { // p strictly below dir
	if dir == "/" {
		return p != "/"
	}
	return strings.HasPrefix(p, dir+"/")
}

// ---- steering model for the generator (namespace only; predicts the native side) ----

type c44SteerH struct {
	acc     int
	dir     bool
	epoch   int
	partial bool
}

type c44Steer struct {
	kind    map[string]byte // clean path -> 'd' or 'f' (the root is implicit)
	handles []c44SteerH
	epoch   int
}

func (s *c44Steer) k(p string) byte {
	if p == "/" {
		return 'd'
	}
	return s.kind[p]
}

func (s *c44Steer) paths(kind byte) []string {
	var out []string
	if kind == 'd' {
		out = append(out, "/")
	}
	for p, k := range s.kind {
		if k == kind {
			out = append(out, p)
		}
	}
	sort.Strings(out)
	return out
}

func (s *c44Steer) apply(o c44Op) {
	switch o.Kind {
	case "mkdir":
		p := c44CleanPath(o.Name)
		if p != "/" && s.k(path.Dir(p)) == 'd' && s.k(p) == 0 {
			s.kind[p] = 'd'
			s.epoch++
		}
	case "open":
		p := c44CleanPath(o.Name)
		existed := s.k(p)
		if existed == 0 && o.Create && s.k(path.Dir(p)) == 'd' {
			s.kind[p] = 'f'
			s.epoch++
		}
		k := s.k(p)
		ok := k != 0 && !(o.Create && o.Excl && existed != 0) && (k == 'f' || (o.Acc%3 == 0 && !o.Create))
		if ok {
			s.handles = append(s.handles, c44SteerH{acc: o.Acc % 3, dir: k == 'd', epoch: s.epoch})
		}
	case "rename":
		from, to := c44CleanPath(o.Name), c44CleanPath(o.Name2)
		if from == "/" || to == "/" || s.k(from) == 0 || s.k(path.Dir(to)) != 'd' || from == to || c44Under(from, to) {
			return
		}
		if tk := s.k(to); tk != 0 {
			empty := true
			for p := range s.kind {
				if c44Under(to, p) {
					empty = false
				}
			}
			if tk != s.k(from) || !empty {
				return
			}
		}
		moved := map[string]byte{}
		for p, k := range s.kind {
			if p == from || c44Under(from, p) {
				moved[to+p[len(from):]] = k
				delete(s.kind, p)
			}
		}
		for p, k := range moved {
			s.kind[p] = k
		}
		s.epoch++
	case "removeall":
		p := c44CleanPath(o.Name)
		if p == "/" {
			return
		}
		for q := range s.kind {
			if q == p || c44Under(p, q) {
				delete(s.kind, q)
				s.epoch++
			}
		}
	case "readdir":
		if len(s.handles) > 0 {
			h := &s.handles[o.H%len(s.handles)]
			h.partial = o.N > 0
		}
	case "seek":
		if len(s.handles) > 0 {
			h := &s.handles[o.H%len(s.handles)]
			if h.dir {
				h.partial = false
			}
		}
	}
}

// "ab" is a string prefix sibling of "a": names that share a prefix without being nested.
var c44Segs = []string{"a", "b", "c", "ab"}

func c44Gen(t *rapid.T) c44Case {
	wild := rapid.IntRange(0, 9).Draw(t, "wild") == 0
	st := &c44Steer{kind: map[string]byte{}}

	anyPath := rapid.Custom(func(t *rapid.T) string {
		if rapid.IntRange(0, 19).Draw(t, "root") == 0 {
			return "/"
		}
		return "/" + strings.Join(rapid.SliceOfN(rapid.SampledFrom(c44Segs), 1, 3).Draw(t, "segs"), "/")
	})
	existing := func(kind byte) *rapid.Generator[string] {
		return rapid.Custom(func(t *rapid.T) string {
			var c []string
			if kind == 0 || kind == 'f' {
				c = append(c, st.paths('f')...)
			}
			if kind == 0 || kind == 'd' {
				c = append(c, st.paths('d')[1:]...) // without the root
			}
			if kind == 'D' { // non-empty directories
				for _, d := range st.paths('d')[1:] {
					for p := range st.kind {
						if c44Under(d, p) {
							c = append(c, d)
							break
						}
					}
				}
			}
			if len(c) == 0 {
				if kind == 'd' && rapid.Bool().Draw(t, "root") {
					return "/"
				}
				return anyPath.Draw(t, "any")
			}
			return rapid.SampledFrom(c).Draw(t, "existing")
		})
	}
	newPath := rapid.Custom(func(t *rapid.T) string {
		var c []string
		for _, d := range st.paths('d') {
			if strings.Count(d, "/") >= 3 {
				continue
			}
			for _, s := range c44Segs {
				p := path.Join(d, s)
				if st.k(p) == 0 {
					c = append(c, p)
				}
			}
		}
		if len(c) == 0 {
			return anyPath.Draw(t, "any")
		}
		return rapid.SampledFrom(c).Draw(t, "new")
	})
	spell := func(t *rapid.T, p string) string {
		switch rapid.IntRange(0, 15).Draw(t, "spelling") {
		case 0:
			return strings.TrimPrefix(p, "/")
		case 1:
			return p + "/"
		case 2:
			return strings.ReplaceAll(p, "/", "//")
		case 3:
			return "/." + p
		case 4:
			return p + "/."
		case 5:
			return "/c/.." + p
		case 6:
			return p + "/b/.."
		case 7:
			return "/.." + p
		}
		return p
	}
	// handle index preferring handles that satisfy pred
	pick := func(t *rapid.T, pred func(h c44SteerH) bool) int {
		var c []int
		for i, h := range st.handles {
			if pred(h) {
				c = append(c, i)
			}
		}
		if len(c) == 0 || rapid.IntRange(0, 9).Draw(t, "anyHandle") == 0 && wild {
			return rapid.IntRange(0, len(st.handles)-1).Draw(t, "h")
		}
		// prefer recent handles
		if len(c) > 3 && rapid.Bool().Draw(t, "recent") {
			c = c[len(c)-3:]
		}
		return rapid.SampledFrom(c).Draw(t, "h")
	}
	has := func(pred func(h c44SteerH) bool) bool {
		for _, h := range st.handles {
			if pred(h) {
				return true
			}
		}
		return false
	}
	data := rapid.Custom(func(t *rapid.T) []byte {
		switch rapid.IntRange(0, 19).Draw(t, "dataKind") {
		case 0:
			if wild {
				return []byte{}
			}
			return []byte{0}
		case 1:
			return bytes.Repeat([]byte{byte(rapid.IntRange(1, 255).Draw(t, "fill"))}, rapid.IntRange(300, 5000).Draw(t, "big"))
		}
		return rapid.SliceOfN(rapid.Byte(), 1, 24).Draw(t, "bytes")
	})

	op := rapid.Custom(func(t *rapid.T) c44Op {
		var o c44Op
		k := rapid.SampledFrom([]string{
			"mkdir", "mkdir", "open", "open", "open", "open", "open", "write", "write", "write", "write", "read", "read", "read",
			"seek", "seek", "seek", "readdir", "fstat", "rename", "rename", "rename", "removeall", "stat",
		}).Draw(t, "kind")
		fileH := func(h c44SteerH) bool { return !h.dir }
		switch k {
		case "write":
			if !has(func(h c44SteerH) bool { return !h.dir && h.acc != 0 }) && (!wild || len(st.handles) == 0) {
				k = "open"
			}
		case "read":
			if !has(func(h c44SteerH) bool { return !h.dir && h.acc != 1 }) && (!wild || len(st.handles) == 0) {
				k = "open"
			}
		case "seek", "fstat":
			if len(st.handles) == 0 {
				k = "open"
			}
		case "readdir":
			if !has(func(h c44SteerH) bool { return h.dir && h.epoch == st.epoch }) {
				k = "opendir"
			}
		}
		o.Kind = k
		switch k {
		case "mkdir":
			if rapid.IntRange(0, 9).Draw(t, "how") < 7 {
				o.Name = newPath.Draw(t, "name")
			} else {
				o.Name = anyPath.Draw(t, "name")
			}
		case "opendir":
			o.Kind = "open"
			o.Name = existing('d').Draw(t, "dir")
			if rapid.IntRange(0, 3).Draw(t, "rootDir") == 0 {
				o.Name = "/"
			}
		case "open":
			how := rapid.IntRange(0, 19).Draw(t, "how")
			if len(st.paths('f')) == 0 && how < 7 {
				how = 7
			}
			switch {
			case how < 7:
				o.Name = existing('f').Draw(t, "file")
			case how < 13:
				o.Name = newPath.Draw(t, "new")
				o.Create = rapid.IntRange(0, 9).Draw(t, "create") > 0
			case how < 16:
				o.Name = existing('d').Draw(t, "dir")
			default:
				o.Name = anyPath.Draw(t, "any")
			}
			o.Acc = rapid.SampledFrom([]int{0, 1, 2, 2, 2}).Draw(t, "acc")
			if !o.Create {
				o.Create = rapid.IntRange(0, 3).Draw(t, "create2") == 0
			}
			o.Excl = o.Create && rapid.IntRange(0, 3).Draw(t, "excl") == 0
			o.Trunc = o.Acc != 0 && rapid.IntRange(0, 3).Draw(t, "trunc") == 0
			if wild {
				o.Append = rapid.IntRange(0, 7).Draw(t, "append") == 0
				o.Sync = rapid.IntRange(0, 7).Draw(t, "sync") == 0
			} else if st.k(c44CleanPath(o.Name)) == 'd' && !(o.Create && o.Excl) {
				// steer away from "directory opened for writing / with O_CREATE"
				o.Acc, o.Create, o.Excl, o.Trunc = 0, false, false, false
			}
		case "write":
			o.H = pick(t, func(h c44SteerH) bool { return !h.dir && h.acc != 0 })
			o.Data = data.Draw(t, "data")
		case "read":
			o.H = pick(t, func(h c44SteerH) bool { return !h.dir && h.acc != 1 })
			o.N = rapid.SampledFrom([]int{1, 2, 3, 7, 16, 100, 6000}).Draw(t, "n")
		case "seek":
			o.H = pick(t, fileH)
			if st.handles[o.H%len(st.handles)].dir {
				break // rewind: Seek(0, SeekStart)
			}
			o.Whence = rapid.SampledFrom([]int{0, 0, 0, 1, 1, 2, 2, 5, 100, -1}).Draw(t, "whence") // 3 and 4 are SEEK_DATA/SEEK_HOLE on Linux
			o.Off = rapid.SampledFrom([]int64{0, 0, 0, 1, 1, 2, 3, 5, 10, 24, 100, 4096, 70000, -1, -1, -2, -5, -30, -70000}).Draw(t, "off")
		case "readdir":
			o.H = pick(t, func(h c44SteerH) bool { return h.dir && h.epoch == st.epoch })
			o.N = rapid.SampledFrom([]int{-1, 0, 1, 2, 100}).Draw(t, "count")
			if h := st.handles[o.H%len(st.handles)]; h.partial && o.N <= 0 {
				o.N = 2 // "all" after a partial read is not compared (see assumptions)
			}
		case "fstat":
			o.H = pick(t, func(h c44SteerH) bool { return true })
		case "rename":
			switch rapid.IntRange(0, 9).Draw(t, "oldKind") {
			case 0:
				o.Name = anyPath.Draw(t, "old")
			case 1, 2, 3:
				o.Name = existing('D').Draw(t, "old")
			default:
				o.Name = existing(0).Draw(t, "old")
			}
			how := rapid.IntRange(0, 19).Draw(t, "how")
			switch {
			case how < 12:
				o.Name2 = newPath.Draw(t, "new")
			case how < 14:
				o.Name2 = path.Join(c44CleanPath(o.Name), rapid.SampledFrom(c44Segs).Draw(t, "sub"))
				if rapid.Bool().Draw(t, "deeper") {
					o.Name2 = path.Join(o.Name2, rapid.SampledFrom(c44Segs).Draw(t, "sub2"))
				}
			case how < 16:
				o.Name2 = existing(0).Draw(t, "onto")
			default:
				o.Name2 = anyPath.Draw(t, "new")
			}
			if !wild && c44CleanPath(o.Name) == c44CleanPath(o.Name2) && (o.Name2 == "/" || st.k(c44CleanPath(o.Name2)) == 0) {
				o.Name2 = newPath.Draw(t, "new2")
			}
		case "removeall":
			switch how := rapid.IntRange(0, 9).Draw(t, "how"); {
			case how < 3:
				o.Name = existing('D').Draw(t, "name")
			case how < 7:
				o.Name = existing(0).Draw(t, "name")
			default:
				o.Name = anyPath.Draw(t, "name")
				if !wild && st.k(path.Dir(c44CleanPath(o.Name))) == 0 {
					o.Name = newPath.Draw(t, "name2")
				}
			}
		case "stat":
			if rapid.Bool().Draw(t, "how") {
				o.Name = existing(0).Draw(t, "name")
			} else {
				o.Name = anyPath.Draw(t, "name")
			}
		}
		if o.Name != "" {
			o.Name = spell(t, o.Name)
		}
		if o.Name2 != "" {
			o.Name2 = spell(t, o.Name2)
		}
		st.apply(o)
		return o
	})
	// rapid's slice lengths lean to the short side; the minimum length is part of the
	// case so that long histories are common and shrinking can still reach short ones
	minLen := rapid.SampledFrom([]int{1, 8, 20, 35}).Draw(t, "minLen")
	return c44Case{Wild: wild, Ops: rapid.SliceOfN(op, minLen, 60).Draw(t, "ops")}
}

// ---- evaluation ----

type c44Rec struct {
	classes    map[string]int
	nontrivial bool
	discard    string
}

func (r *c44Rec) class(s string) {
	if r.classes == nil {
		r.classes = map[string]int{}
	}
	r.classes[s]++
}

type c44Result struct {
	known string // first situation of an open finding met (evaluation stops there when stopAtKnown)
	err   error
	rec   c44Rec
}

type c44Entry struct {
	name string
	dir  bool
}

type c44Handle struct {
	mem, nat File
	acc      int
	dir      bool
	clean    string
	epoch    int   // namespace epoch at open
	pos      int64 // native file position (tracked from results)
	tainted  bool  // directory listing no longer comparable
	partial  bool  // a Readdir(n>0) has not yet reached the end
	memSeen  []c44Entry
	natSeen  []c44Entry
}

func c44Entries(fis []os.FileInfo) []c44Entry {
	var out []c44Entry
	for _, fi := range fis {
		out = append(out, c44Entry{fi.Name(), fi.IsDir()})
	}
	return out
}

func c44EntrySet(es []c44Entry) string {
	var s []string
	for _, e := range es {
		if e.dir {
			s = append(s, e.name+"/")
		} else {
			s = append(s, e.name)
		}
	}
	sort.Strings(s)
	return strings.Join(s, " ")
}

// c44NativeTree lists the native directory: clean path -> "dir" or "file:<content>".
func c44NativeTree(root string) (map[string]string, error) {
	out := map[string]string{}
	var walk func(dir, rel string) error
	walk = func(dir, rel string) error {
		ents, err := os.ReadDir(dir)
		if err != nil {
			return err
		}
		for _, e := range ents {
			p := path.Join(rel, e.Name())
			if e.IsDir() {
				out[p] = "dir"
				if err := walk(filepath.Join(dir, e.Name()), p); err != nil {
					return err
				}
				continue
			}
			b, err := os.ReadFile(filepath.Join(dir, e.Name()))
			if err != nil {
				return err
			}
			out[p] = "file:" + string(b)
		}
		return nil
	}
	return out, walk(root, "/")
}

// c44APITree lists a FileSystem through its own API with fresh read-only handles.
func c44APITree(ctx context.Context, fs FileSystem) (map[string]string, error) {
	out := map[string]string{}
	var walk func(dir string) error
	walk = func(dir string) error {
		f, err := fs.OpenFile(ctx, dir, os.O_RDONLY, 0)
		if err != nil {
			return fmt.Errorf("open %q: %v", dir, err)
		}
		fis, err := f.Readdir(-1)
		f.Close()
		if err != nil {
			return fmt.Errorf("readdir %q: %v", dir, err)
		}
		for _, fi := range fis {
			p := path.Join(dir, fi.Name())
			if _, dup := out[p]; dup {
				return fmt.Errorf("readdir %q lists %q twice", dir, fi.Name())
			}
			st, err := fs.Stat(ctx, p)
			if err != nil {
				return fmt.Errorf("stat %q (listed by readdir): %v", p, err)
			}
			if st.IsDir() != fi.IsDir() {
				return fmt.Errorf("%q: Readdir says dir=%v, Stat says dir=%v", p, fi.IsDir(), st.IsDir())
			}
			if fi.IsDir() {
				out[p] = "dir"
				if err := walk(p); err != nil {
					return err
				}
				continue
			}
			g, err := fs.OpenFile(ctx, p, os.O_RDONLY, 0)
			if err != nil {
				return fmt.Errorf("open %q: %v", p, err)
			}
			const limit = 1 << 20 // generated files stay below 80 KB
			b, err := io.ReadAll(io.LimitReader(g, limit))
			g.Close()
			if err != nil {
				return fmt.Errorf("read %q: %v", p, err)
			}
			if len(b) == limit {
				return fmt.Errorf("read %q: no end of file after %d bytes", p, limit)
			}
			if st.Size() != int64(len(b)) {
				return fmt.Errorf("%q: Stat size %d but %d bytes readable", p, st.Size(), len(b))
			}
			out[p] = "file:" + string(b)
		}
		return nil
	}
	return out, walk("/")
}

func c44Show(v string) string {
	if len(v) > 60 {
		return fmt.Sprintf("%q...(%d bytes)", v[:60], len(v))
	}
	return fmt.Sprintf("%q", v)
}

func c44TreeDiff(mem, nat map[string]string) string {
	var keys []string
	for k := range mem {
		keys = append(keys, k)
	}
	for k := range nat {
		if _, ok := mem[k]; !ok {
			keys = append(keys, k)
		}
	}
	sort.Strings(keys)
	var out []string
	for _, k := range keys {
		m, mok := mem[k]
		n, nok := nat[k]
		switch {
		case !mok:
			out = append(out, fmt.Sprintf("%s: missing in memFS, native has %s", k, c44Show(n)))
		case !nok:
			out = append(out, fmt.Sprintf("%s: memFS has %s, missing natively", k, c44Show(m)))
		case m != n:
			out = append(out, fmt.Sprintf("%s: memFS %s, native %s", k, c44Show(m), c44Show(n)))
		}
	}
	return strings.Join(out, "; ")
}

// c44Eval runs the history. With stopAtKnown it stops (without a verdict) at the
// first call that falls into a known divergence class.
func c44Eval(c c44Case, stopAtKnown bool) (res c44Result) {
	rec := &res.rec
	for _, o := range c.Ops {
		if o.Kind == "open" && ((o.Trunc && o.Acc%3 == 0) || (o.Excl && !o.Create)) {
			rec.discard = "open flags whose meaning POSIX leaves undefined (O_RDONLY|O_TRUNC, O_EXCL without O_CREATE)"
			return
		}
		if o.Kind == "seek" && (o.Whence == 3 || o.Whence == 4) {
			rec.discard = "whence 3/4 (SEEK_DATA/SEEK_HOLE are Linux extensions, not os package semantics)"
			return
		}
		if o.Kind == "read" && o.N < 1 {
			rec.discard = "zero-length read"
			return
		}
		if o.Acc < 0 || o.H < 0 || o.N > 1<<20 || len(o.Data) > 1<<20 || o.Off > 1<<20 || o.Off < -(1<<20) {
			rec.discard = "out of range"
			return
		}
	}
	tmp, err := os.MkdirTemp("", "c44-")
	if err != nil {
		res.err = fmt.Errorf("harness: %v", err)
		return
	}
	defer os.RemoveAll(tmp)
	ctx := context.Background()
	mem := NewMemFS()
	nat := Dir(tmp)
	var handles []*c44Handle
	defer func() {
		for _, h := range handles {
			h.nat.Close()
			h.mem.Close()
		}
	}()
	epoch := 0

	natKind := func(clean string) byte {
		fi, err := os.Lstat(filepath.Join(tmp, filepath.FromSlash(clean)))
		switch {
		case err != nil:
			return 0
		case fi.IsDir():
			return 'd'
		}
		return 'f'
	}
	natEmpty := func(clean string) bool {
		ents, _ := os.ReadDir(filepath.Join(tmp, filepath.FromSlash(clean)))
		return len(ents) == 0
	}
	compareTrees := func(where string) error {
		nt, err := c44NativeTree(tmp)
		if err != nil {
			return fmt.Errorf("harness: listing the native tree: %v", err)
		}
		mt, err := c44APITree(ctx, mem)
		if err != nil {
			return fmt.Errorf("%s: memFS cannot be listed afterwards: %v", where, err)
		}
		if d := c44TreeDiff(mt, nt); d != "" {
			return fmt.Errorf("%s: trees differ afterwards: %s", where, d)
		}
		return nil
	}
	var madeDir, madeFile, bigDirOp, offsetWrite bool

	for i, o := range c.Ops {
		where := fmt.Sprintf("step %d %v", i, o)
		var h *c44Handle
		switch o.Kind {
		case "write", "read", "seek", "readdir", "fstat":
			if len(handles) == 0 {
				rec.class("no-handle-yet")
				continue
			}
			h = handles[o.H%len(handles)]
			where = fmt.Sprintf("step %d %v [handle of %q, %s]", i, o, h.clean, []string{"O_RDONLY", "O_WRONLY", "O_RDWR"}[h.acc])
		}
		// known records the situation; it returns true when evaluation must stop.
		known := func(key string) bool {
			if key == "" {
				return false
			}
			rec.class("known:" + key)
			if !stopAtKnown || !c44Active()[key] {
				return false // not (or no longer) an open finding: the call is compared like any other
			}
			res.known = key
			return true
		}
		agree := func(ne, me error) error {
			if (ne == nil) != (me == nil) {
				return fmt.Errorf("%s: native error: %v; memFS error: %v", where, ne, me)
			}
			return nil
		}
		mutated := false

		switch o.Kind {
		case "mkdir":
			ne := nat.Mkdir(ctx, o.Name, 0o755)
			me := mem.Mkdir(ctx, o.Name, 0o755)
			if res.err = agree(ne, me); res.err != nil {
				return
			}
			if ne == nil {
				madeDir = true
				epoch++
				rec.class("mkdir-ok")
			} else {
				rec.class("mkdir-fail")
			}
			mutated = true

		case "open":
			clean := c44CleanPath(o.Name)
			pre := natKind(clean)
			nf, ne := nat.OpenFile(ctx, o.Name, o.flag(), 0o644)
			if known(c44OpenSituation(o, clean, pre, ne)) {
				if nf != nil {
					nf.Close()
				}
				return
			}
			mf, me := mem.OpenFile(ctx, o.Name, o.flag(), 0o644)
			if res.err = agree(ne, me); res.err != nil {
				if nf != nil {
					nf.Close()
				}
				if mf != nil {
					mf.Close()
				}
				return
			}
			if ne == nil {
				k := natKind(clean)
				handles = append(handles, &c44Handle{mem: mf, nat: nf, acc: o.Acc % 3, dir: k == 'd', clean: clean})
				if pre == 0 {
					madeFile = true
					epoch++
					rec.class("open-created")
				} else if k == 'd' {
					rec.class("open-dir")
				} else if o.Trunc {
					rec.class("open-trunc")
				} else {
					rec.class("open-existing-file")
				}
				handles[len(handles)-1].epoch = epoch
			} else {
				rec.class("open-fail")
			}
			mutated = o.Create || o.Trunc

		case "stat":
			nfi, ne := nat.Stat(ctx, o.Name)
			mfi, me := mem.Stat(ctx, o.Name)
			if res.err = agree(ne, me); res.err != nil {
				return
			}
			if ne == nil {
				if nfi.IsDir() != mfi.IsDir() {
					res.err = fmt.Errorf("%s: native IsDir=%v, memFS IsDir=%v", where, nfi.IsDir(), mfi.IsDir())
					return
				}
				if !nfi.IsDir() && nfi.Size() != mfi.Size() {
					res.err = fmt.Errorf("%s: native size %d, memFS size %d", where, nfi.Size(), mfi.Size())
					return
				}
				rec.class("stat-ok")
			} else {
				rec.class("stat-fail")
			}

		case "removeall":
			clean := c44CleanPath(o.Name)
			pre := natKind(clean)
			parent := natKind(path.Dir(clean))
			nonEmpty := pre == 'd' && !natEmpty(clean)
			ne := nat.RemoveAll(ctx, o.Name)
			if clean != "/" && parent == 0 && ne == nil && known("c44-removeall-parent-missing") {
				return
			}
			me := mem.RemoveAll(ctx, o.Name)
			if clean == "/" {
				rec.class("removeall-root")
				if me == nil {
					res.err = fmt.Errorf("%s: memFS removed the root (must always fail)", where)
					return
				}
			}
			if res.err = agree(ne, me); res.err != nil {
				return
			}
			if ne == nil {
				epoch++
				if nonEmpty {
					bigDirOp = true
					rec.class("removeall-nonempty-dir")
				} else {
					rec.class("removeall-ok")
				}
			} else {
				rec.class("removeall-fail")
			}
			mutated = true

		case "rename":
			from, to := c44CleanPath(o.Name), c44CleanPath(o.Name2)
			preFrom, preTo := natKind(from), natKind(to)
			nonEmpty := preFrom == 'd' && from != "/" && !natEmpty(from)
			ne := nat.Rename(ctx, o.Name, o.Name2)
			if from == "/" && to == "/" && known("c44-rename-root-onto-itself") {
				return
			}
			if from == to && preFrom == 0 && known("c44-rename-missing-onto-itself") {
				return
			}
			me := mem.Rename(ctx, o.Name, o.Name2)
			if from == "/" {
				rec.class("rename-root")
				if me == nil {
					res.err = fmt.Errorf("%s: memFS renamed the root (must always fail)", where)
					return
				}
			}
			if preFrom == 'd' && c44Under(from, to) {
				rec.class("rename-dir-into-own-subtree")
				if me == nil {
					res.err = fmt.Errorf("%s: memFS renamed a directory into its own subtree (must always fail)", where)
					return
				}
			}
			if preTo != 0 {
				// Renaming over an existing entry (the root included) is OS specific:
				// not compared. The history continues only if both sides still agree.
				rec.class("rename-over-existing(exempt)")
				if (ne == nil) != (me == nil) || compareTrees(where) != nil {
					rec.class("history-ended-after-exempt-rename")
					goto done
				}
				epoch++
				break
			}
			if res.err = agree(ne, me); res.err != nil {
				return
			}
			if ne == nil {
				epoch++
				if nonEmpty {
					bigDirOp = true
					rec.class("rename-nonempty-dir")
				} else {
					rec.class("rename-ok")
				}
			} else {
				rec.class("rename-fail")
			}
			mutated = true

		case "fstat":
			nfi, ne := h.nat.Stat()
			mfi, me := h.mem.Stat()
			if res.err = agree(ne, me); res.err != nil {
				return
			}
			if ne == nil {
				if nfi.IsDir() != mfi.IsDir() {
					res.err = fmt.Errorf("%s: native IsDir=%v, memFS IsDir=%v", where, nfi.IsDir(), mfi.IsDir())
					return
				}
				if !nfi.IsDir() && nfi.Size() != mfi.Size() {
					res.err = fmt.Errorf("%s: native size %d, memFS size %d", where, nfi.Size(), mfi.Size())
					return
				}
			}
			rec.class("fstat")

		case "write":
			if !h.dir && h.acc == 0 && known("c44-write-on-rdonly-handle") {
				return
			}
			if !h.dir && h.acc != 0 && len(o.Data) == 0 {
				if fi, err := h.nat.Stat(); err == nil && h.pos > fi.Size() && known("c44-empty-write-past-eof") {
					return
				}
			}
			nn, ne := h.nat.Write(o.Data)
			mn, me := h.mem.Write(o.Data)
			if res.err = agree(ne, me); res.err != nil {
				return
			}
			if nn != mn {
				res.err = fmt.Errorf("%s: native wrote %d bytes, memFS %d", where, nn, mn)
				return
			}
			if ne == nil {
				if h.pos > 0 && nn > 0 {
					offsetWrite = true
					rec.class("write-at-nonzero-offset")
				} else {
					rec.class("write-ok")
				}
				h.pos += int64(nn)
			} else {
				rec.class("write-fail")
			}
			mutated = true

		case "read":
			if !h.dir && h.acc == 1 && known("c44-read-on-wronly-handle") {
				return
			}
			nb, mb := make([]byte, o.N), make([]byte, o.N)
			nn, ne := h.nat.Read(nb)
			mn, me := h.mem.Read(mb)
			if res.err = agree(ne, me); res.err != nil {
				return
			}
			if (ne == io.EOF) != (me == io.EOF) {
				res.err = fmt.Errorf("%s: native error %v, memFS error %v", where, ne, me)
				return
			}
			if nn != mn || !bytes.Equal(nb[:nn], mb[:mn]) {
				res.err = fmt.Errorf("%s: native read %d bytes %s, memFS %d bytes %s", where, nn, c44Show(string(nb[:nn])), mn, c44Show(string(mb[:mn])))
				return
			}
			h.pos += int64(nn)
			switch {
			case ne == io.EOF:
				rec.class("read-eof")
			case ne != nil:
				rec.class("read-fail")
			default:
				rec.class("read-ok")
			}

		case "seek":
			if h.dir && (o.Off != 0 || o.Whence != 0) {
				rec.class("seek-on-directory-handle-skipped")
				continue
			}
			np, ne := h.nat.Seek(o.Off, o.Whence)
			mp, me := h.mem.Seek(o.Off, o.Whence)
			if res.err = agree(ne, me); res.err != nil {
				return
			}
			if ne == nil {
				if np != mp {
					res.err = fmt.Errorf("%s: native offset %d, memFS offset %d", where, np, mp)
					return
				}
				h.pos = np
				if h.dir {
					h.partial, h.natSeen, h.memSeen = false, nil, nil
					rec.class("rewind-dir")
				} else {
					rec.class("seek-ok")
				}
			} else {
				rec.class("seek-fail")
			}

		case "readdir":
			nfis, ne := h.nat.Readdir(o.N)
			mfis, me := h.mem.Readdir(o.N)
			if !h.dir {
				if res.err = agree(ne, me); res.err != nil {
					return
				}
				rec.class("readdir-on-file")
				break
			}
			if h.epoch != epoch || h.tainted || (h.partial && o.N <= 0) {
				// the directory changed after the handle was opened (POSIX leaves the
				// listing unspecified), or "all" after a partial listing: not compared
				h.tainted = true
				rec.class("readdir-not-compared")
				break
			}
			if res.err = agree(ne, me); res.err != nil {
				return
			}
			if (ne == io.EOF) != (me == io.EOF) || len(nfis) != len(mfis) {
				res.err = fmt.Errorf("%s: native %d entries error %v, memFS %d entries error %v", where, len(nfis), ne, len(mfis), me)
				return
			}
			h.natSeen = append(h.natSeen, c44Entries(nfis)...)
			h.memSeen = append(h.memSeen, c44Entries(mfis)...)
			if o.N <= 0 || ne != nil || len(nfis) < o.N {
				ns, ms := c44EntrySet(h.natSeen), c44EntrySet(h.memSeen)
				if ns != ms {
					res.err = fmt.Errorf("%s: complete listing differs: native [%s], memFS [%s]", where, ns, ms)
					return
				}
				h.partial, h.natSeen, h.memSeen = false, nil, nil
				rec.class("readdir-complete-listing-compared")
			} else {
				h.partial = true
				rec.class("readdir-partial")
			}
		default:
			res.err = fmt.Errorf("bad op kind %q", o.Kind)
			return
		}
		if mutated {
			if res.err = compareTrees(where); res.err != nil {
				return
			}
		}
	}
done:
	if madeDir && madeFile && bigDirOp && offsetWrite {
		rec.nontrivial = true
	}
	if c.Wild {
		rec.class("wild-case")
	}
	return
}

// c44OpenSituation classifies an OpenFile call from the call, the native state
// before it and the native result.
func c44OpenSituation(o c44Op, clean string, pre byte, nativeErr error) string {
	switch {
	case (o.Append || o.Sync) && nativeErr == nil && clean != "/":
		return "c44-open-append-sync"
	case pre == 'd' && nativeErr != nil && o.Create &&
		((clean != "/" && !o.Excl) || (clean == "/" && o.Acc%3 == 0)):
		return "c44-open-dir-with-create"
	case pre == 'd' && nativeErr != nil && clean != "/" && !o.Create && o.Acc%3 != 0:
		return "c44-open-dir-for-writing"
	}
	return ""
}

// c44Active returns the keys of the open C44 findings (the runner skips exactly
// those; a situation whose finding is fixed or unlisted must be compared).
var c44ActiveKeys map[string]bool

func c44Active() map[string]bool {
	if c44ActiveKeys != nil {
		return c44ActiveKeys
	}
	c44ActiveKeys = map[string]bool{}
	b, err := os.ReadFile(os.Getenv("VP_KNOWN"))
	if err != nil {
		return c44ActiveKeys
	}
	var kf struct {
		Findings []struct{ Key, Property, Status string }
	}
	if json.Unmarshal(b, &kf) == nil {
		for _, f := range kf.Findings {
			if f.Property == "C44" && f.Status == "open" {
				c44ActiveKeys[f.Key] = true
			}
		}
	}
	return c44ActiveKeys
}

// The runner asks Known before Prop; both need the same evaluation, so Known keeps
// the result of the last case it ran for Prop.
var c44Last struct {
	key string
	res c44Result
}

func c44Known(c c44Case) (key string) {
	c44Last.key = ""
	defer func() {
		if recover() != nil {
			key = "" // Prop will run the case again and report the panic
		}
	}()
	res := c44Eval(c, true)
	if res.known != "" {
		return res.known
	}
	b, _ := json.Marshal(c)
	c44Last.key, c44Last.res = string(b), res
	return ""
}

func c44Prop(c c44Case, r *vp.Rec) error {
	var res c44Result
	b, _ := json.Marshal(c)
	if c44Last.key != "" && c44Last.key == string(b) {
		res = c44Last.res
	} else {
		res = c44Eval(c, false)
	}
	c44Last.key = ""
	if res.err != nil {
		return res.err
	}
	if res.rec.discard != "" {
		r.Discard(res.rec.discard)
		return nil
	}
	for k, n := range res.rec.classes {
		for ; n > 0; n-- {
			r.Class(k)
		}
	}
	if res.rec.nontrivial {
		r.NonTrivial()
	}
	return nil
}

func TestVP_C44(t *testing.T) {
	vp.Run(t, vp.Spec[c44Case]{ID: "C44", Gen: c44Gen, Prop: c44Prop, Known: c44Known})
}
