package netutil

// C58: LimitListener never exceeds its connection limit.
//
//	TestVP_C58         harness-owned schedules (workers in a testing/synctest bubble)
//	TestVP_C58_stress  real parallelism, schedule-independent invariants only
//
// The wrapped listener is an in-memory net.Listener whose Accept hands out fake
// conns from a queue that the schedule fills ("feed"). It is well behaved: Accept
// blocks while the queue is empty, Close wakes pending Accepts with an error and an
// Accept that starts after Close returns an error. The fake counts, with atomics and
// at the instant of every hand-out, the conns that were taken from it and whose Close
// has not yet been called - the quantity the limit is about.

import (
	"errors"
	"fmt"
	"net"
	"runtime"
	"sort"
	"sync"
	"sync/atomic"
	"testing"
	"testing/synctest"

	"pgregory.net/rapid"
	"verif/vp"
)

// ---------------------------------------------------------------------------
// fake listener / conn / monitor

type c58Monitor struct {
	limit int64
	// recloseNil makes a repeated Close of a wrapped conn return nil, as net.Pipe
	// conns do (a *net.TCPConn returns an error); LimitListener must free exactly
	// one slot either way.
	recloseNil bool
	// firstCloseErr makes the first Close of a wrapped conn return an error although the
	// conn is closed by it (a tls.Conn that cannot send close_notify, a wrapper that
	// reports teardown errors): the slot is free all the same.
	firstCloseErr bool
	// closeErr makes the wrapped listener's Close return an error (it still closes).
	closeErr  bool
	laggy     bool         // the wrapped listener hands out conns after Close (c58Listener.lag)
	taken     atomic.Int64 // handed out by the fake listener, Close not yet called
	returned  atomic.Int64 // returned by LimitListener.Accept to the caller, Close not yet called
	handed    atomic.Int64 // total handed out
	closedN   atomic.Int64 // conns closed at least once
	maxTaken  atomic.Int64
	dblClosed atomic.Int64
	expect    int64         // stress: signal when closedN reaches this
	allClosed chan struct{} // stress
	mu        sync.Mutex
	err       error
}

func (m *c58Monitor) fail(format string, a ...any) {
	m.mu.Lock()
	if m.err == nil {
		m.err = fmt.Errorf(format, a...)
	}
	m.mu.Unlock()
}

func (m *c58Monitor) failure() error {
	m.mu.Lock()
	defer m.mu.Unlock()
	return m.err
}

type c58Addr struct{}

func (c58Addr) Network() string { return "c58" }
func (c58Addr) String() string  { return "c58" }

type c58Conn struct {
	net.Conn // nil: only Close is ever called
	id       int
	mon      *c58Monitor
	mu       sync.Mutex
	closes   atomic.Int32
	counted  atomic.Bool // counted in mon.returned
}

// Close: the conn counts as closed from the first call on. The mutex makes "first
// call" and the decrement of the counters one step: otherwise a second, concurrent
// Close could return (and let LimitListener free the slot) before the first caller
// has decremented, and the monitor would briefly see n+1 open conns.
func (c *c58Conn) Close() error {
	c.mu.Lock()
	defer c.mu.Unlock()
	if c.closes.Add(1) > 1 {
		c.mon.dblClosed.Add(1)
		if c.mon.recloseNil {
			return nil
		}
		return net.ErrClosed
	}
	c.mon.taken.Add(-1)
	if c.counted.Load() {
		c.mon.returned.Add(-1)
	}
	if c.mon.closedN.Add(1) == c.mon.expect && c.mon.allClosed != nil {
		close(c.mon.allClosed)
	}
	if c.mon.firstCloseErr {
		return errC58Teardown
	}
	return nil
}

var errC58Teardown = errors.New("c58: error while tearing the connection down")

type c58Listener struct {
	mon    *c58Monitor
	conns  chan *c58Conn
	closed chan struct{}
	once   sync.Once
	// laggy listener (cf. golang.org/issue/50216): an Accept that starts after Close
	// still hands out up to lag conns that were already queued before it starts
	// returning errors. post lists the conns handed out that way.
	lagMu sync.Mutex
	lag   int
	post  []*c58Conn
}

func (l *c58Listener) isClosed() bool {
	select {
	case <-l.closed:
		return true
	default:
		return false
	}
}

// afterClose is Accept on the closed listener: never blocks.
func (l *c58Listener) afterClose() (net.Conn, error) {
	l.lagMu.Lock()
	defer l.lagMu.Unlock()
	if l.lag > 0 {
		select {
		case c := <-l.conns:
			l.lag--
			l.post = append(l.post, c)
			l.mon.handed.Add(1)
			l.mon.taken.Add(1)
			return c, nil
		default:
		}
	}
	return nil, net.ErrClosed
}

func (l *c58Listener) postConns() []*c58Conn {
	l.lagMu.Lock()
	defer l.lagMu.Unlock()
	return append([]*c58Conn(nil), l.post...)
}

func c58NewListener(mon *c58Monitor, capacity int) *c58Listener {
	return &c58Listener{mon: mon, conns: make(chan *c58Conn, capacity), closed: make(chan struct{})}
}

func (l *c58Listener) Accept() (net.Conn, error) {
	select {
	case <-l.closed:
		return l.afterClose()
	default:
	}
	select {
	case c := <-l.conns:
		l.mon.handed.Add(1)
		v := l.mon.taken.Add(1)
		for {
			old := l.mon.maxTaken.Load()
			if v <= old || l.mon.maxTaken.CompareAndSwap(old, v) {
				break
			}
		}
		// With a laggy listener the taken-count legitimately overshoots for a moment
		// after Close (spurious conns are taken and closed at once); there only the
		// count of conns returned by Accept is judged. The closed test comes after the
		// increment: if the listener is not closed yet, no spurious conn is in v.
		if v > l.mon.limit && !(l.mon.laggy && l.isClosed()) {
			l.mon.fail("limit %d exceeded: %d connections have been taken from the wrapped listener and not been closed", l.mon.limit, v)
		}
		return c, nil
	case <-l.closed:
		return nil, net.ErrClosed
	}
}

func (l *c58Listener) Close() error {
	l.once.Do(func() { close(l.closed) })
	if l.mon.closeErr {
		// a listener whose cleanup reports an error although it has stopped accepting
		return errors.New("c58: fake listener close error")
	}
	return nil
}

func (l *c58Listener) Addr() net.Addr { return c58Addr{} }

// c58Inner finds the fake conn inside what LimitListener's Accept returned.
func c58Inner(c net.Conn) *c58Conn {
	switch x := c.(type) {
	case *c58Conn:
		return x
	case *limitListenerConn:
		if in, ok := x.Conn.(*c58Conn); ok {
			return in
		}
	}
	return nil
}

// c58Returned accounts a conn that LimitListener.Accept has just returned.
func (m *c58Monitor) accountReturned(c net.Conn) {
	in := c58Inner(c)
	if in == nil {
		return
	}
	in.counted.Store(true)
	if v := m.returned.Add(1); v > m.limit {
		m.fail("limit %d exceeded: %d connections returned by Accept have not been closed", m.limit, v)
	}
}

// ---------------------------------------------------------------------------
// worker pool (same shape as the C29 one)

type c58Panic struct{ msg string }

type c58Result struct {
	w   int
	out any
}

type c58Pool struct {
	cmd  []chan func() any
	res  chan c58Result
	busy []bool
}

func c58NewPool(n int) *c58Pool {
	p := &c58Pool{res: make(chan c58Result, n), busy: make([]bool, n)}
	for i := 0; i < n; i++ {
		ch := make(chan func() any)
		p.cmd = append(p.cmd, ch)
		go func(i int, ch chan func() any) {
			for f := range ch {
				p.res <- c58Result{i, c58Call(f)}
			}
		}(i, ch)
	}
	return p
}

func c58Call(f func() any) (out any) {
	defer func() {
		if e := recover(); e != nil {
			out = c58Panic{fmt.Sprint(e)}
		}
	}()
	return f()
}

func (p *c58Pool) start(w int, f func() any) {
	p.busy[w] = true
	p.cmd[w] <- f
}

func (p *c58Pool) settle() []c58Result {
	synctest.Wait()
	var out []c58Result
	for {
		select {
		case r := <-p.res:
			p.busy[r.w] = false
			out = append(out, r)
			continue
		default:
		}
		break
	}
	sort.Slice(out, func(i, j int) bool { return out[i].w < out[j].w })
	return out
}

func (p *c58Pool) stop() {
	for _, ch := range p.cmd {
		close(ch)
	}
	synctest.Wait()
}

func c58InBubble(f func() error) error {
	var verdict error
	berr := vp.Bubble(func(t *testing.T) error {
		verdict = f()
		return verdict
	})
	if verdict != nil {
		return verdict
	}
	return berr
}

// ---------------------------------------------------------------------------
// schedules

// c58Act: Op is "accept" (worker W calls Accept), "cclose" (worker W closes the J-th
// conn accepted so far, modulo; closing one twice, also from two workers in the same
// batch, is intended), "lclose" (worker W closes the listener) or "feed" (the harness
// queues one more conn in the wrapped listener).
type c58Act struct {
	W  int    `json:"w"`
	Op string `json:"op"`
	J  int    `json:"j,omitempty"`
}

type c58Case struct {
	N       int        `json:"n"`
	Prefill int        `json:"prefill"` // conns queued in the wrapped listener before the first step
	Workers int        `json:"workers"`
	Sched   [][]c58Act `json:"sched"`
	// RecloseNil: the wrapped conns return nil from a repeated Close (net.Pipe style).
	RecloseNil bool `json:"reclose_nil"`
	// FirstCloseErr: the wrapped conns return an error from their first Close.
	FirstCloseErr bool `json:"first_close_err,omitempty"`
	// CloseErr: the wrapped listener's Close returns an error although it closes.
	CloseErr bool `json:"close_err"`
	// Lag: the wrapped listener hands out up to Lag (1-3) more queued conns to
	// Accepts that start after its Close before it returns errors (0: well behaved).
	Lag int `json:"lag,omitempty"`
}

func c58Gen(t *rapid.T) c58Case {
	act := rapid.Custom(func(t *rapid.T) c58Act {
		// rapid's small-int draws are strongly biased to 0; two bytes modulo 100 are
		// close to uniform.
		pct := (int(rapid.Byte().Draw(t, "p1"))<<8 | int(rapid.Byte().Draw(t, "p2"))) % 100
		var op string
		switch {
		case pct < 45:
			op = "accept"
		case pct < 65:
			op = "feed"
		case pct < 98:
			op = "cclose"
		default:
			op = "lclose"
		}
		return c58Act{W: rapid.IntRange(0, 4).Draw(t, "w"), Op: op, J: rapid.IntRange(0, 5).Draw(t, "j")}
	})
	batch := rapid.Custom(func(t *rapid.T) []c58Act {
		n := rapid.SampledFrom([]int{1, 1, 1, 1, 1, 2, 2, 3}).Draw(t, "batch")
		return rapid.SliceOfN(act, n, n).Draw(t, "acts")
	})
	return c58Case{
		N:             rapid.IntRange(0, 4).Draw(t, "n"), // 0: no connection may ever be accepted
		Prefill:       rapid.IntRange(0, 6).Draw(t, "prefill"),
		Workers:       rapid.IntRange(2, 5).Draw(t, "workers"),
		Sched:         rapid.SliceOfN(batch, 1, 40).Draw(t, "sched"),
		RecloseNil:    rapid.Bool().Draw(t, "recloseNil"),
		FirstCloseErr: rapid.IntRange(0, 3).Draw(t, "firstCloseErr") == 0,
		CloseErr:      rapid.IntRange(0, 3).Draw(t, "closeErr") == 0,
		Lag:           rapid.SampledFrom([]int{0, 0, 1, 2, 3}).Draw(t, "lag"),
	}
}

const (
	c58Idle = iota
	c58InAccept
	c58InConnClose
	c58InListenerClose
)

type c58AcceptRes struct {
	c   net.Conn
	err error
}

type c58Worker struct {
	state        int
	afterClose   bool // the Accept in progress started after Listener.Close had returned
	wasBlocked   bool
	blockedOnLim bool // was blocked at a quiescent point with the limit reached and a conn queued
}

func c58Prop(c c58Case, r *vp.Rec) error {
	if c.N < 0 || c.N > 64 || c.Workers < 1 || c.Workers > 16 || c.Prefill < 0 || c.Prefill > 64 || c.Lag < 0 || c.Lag > 64 {
		r.Discard("malformed case")
		return nil
	}
	return c58InBubble(func() error { return c58Run(c, r) })
}

func c58Run(c c58Case, r *vp.Rec) error {
	n := c.Workers
	mon := &c58Monitor{limit: int64(c.N), recloseNil: c.RecloseNil, firstCloseErr: c.FirstCloseErr, closeErr: c.CloseErr, laggy: c.Lag > 0}
	feeds := c.Prefill
	for _, b := range c.Sched {
		feeds += len(b)
	}
	inner := c58NewListener(mon, feeds+1)
	inner.lag = c.Lag
	ll := LimitListener(inner, c.N)
	pool := c58NewPool(n + 1) // worker n is the janitor
	ws := make([]c58Worker, n+1)
	var accepted []net.Conn
	fed := 0
	for ; fed < c.Prefill; fed++ {
		inner.conns <- &c58Conn{id: fed + 1, mon: mon}
	}
	lclosed := false // Listener.Close has been started (and, at quiescence, has returned)
	hw := int64(0)   // largest number of simultaneously open conns seen at a quiescent point
	releasedByClose, doubleClose := false, false

	step := func(si string, acts []c58Act, janitor bool) error {
		closedAtStart := lclosed
		ccloseInStep := false
		returnedAtStart := mon.returned.Load() // = slots in use, once Close has returned
		postAtStart := len(inner.postConns())
		for _, a := range acts {
			if a.Op == "feed" {
				if !lclosed {
					fed++
					inner.conns <- &c58Conn{id: fed, mon: mon}
				}
				continue
			}
			w := ((a.W % n) + n) % n
			if janitor {
				w = n
			}
			// a busy worker passes the action on to the next idle one
			for k := 0; k < n && pool.busy[w] && !janitor; k++ {
				w = (w + 1) % n
			}
			if pool.busy[w] {
				r.Class("all-workers-busy(no-op)")
				continue
			}
			wk := &ws[w]
			switch a.Op {
			case "accept":
				wk.state, wk.afterClose = c58InAccept, closedAtStart
				pool.start(w, func() any {
					c, err := ll.Accept()
					if c != nil {
						mon.accountReturned(c)
					}
					return c58AcceptRes{c, err}
				})
			case "cclose":
				if len(accepted) == 0 {
					r.Class("cclose-without-conn(no-op)")
					continue
				}
				j := ((a.J % len(accepted)) + len(accepted)) % len(accepted)
				conn := accepted[j]
				if in := c58Inner(conn); in != nil && in.closes.Load() > 0 {
					doubleClose = true
					r.Class("conn-closed-again")
				}
				ccloseInStep = true
				wk.state = c58InConnClose
				pool.start(w, func() any { return conn.Close() })
			case "lclose":
				lclosed = true
				wk.state = c58InListenerClose
				pool.start(w, func() any { return ll.Close() })
			default:
				r.Class("unknown-op(no-op)")
			}
		}
		if len(acts) > 1 {
			r.Class("batch-step")
		}
		results := pool.settle()
		for _, res := range results {
			wk := &ws[res.w]
			st := wk.state
			wk.state = c58Idle
			if p, ok := res.out.(c58Panic); ok {
				return fmt.Errorf("%s: worker %d: operation panicked: %s", si, res.w, p.msg)
			}
			if st != c58InAccept {
				continue
			}
			ar := res.out.(c58AcceptRes)
			switch {
			case ar.c != nil && ar.err == nil:
				switch {
				case wk.afterClose && c.Lag == 0:
					return fmt.Errorf("%s: worker %d: Accept called after Close returned a connection instead of an error", si, res.w)
				case wk.afterClose && returnedAtStart >= int64(c.N) && !ccloseInStep:
					// laggy listener: with a free slot the unchanged code may hand a
					// lagging conn on (within the limit); with every slot taken it
					// must close such conns and return the error.
					return fmt.Errorf("%s: worker %d: Accept called after Close, with all %d slots taken, returned a connection instead of an error", si, res.w, c.N)
				case wk.afterClose:
					r.Class("lag:conn-after-close-within-limit")
				}
				accepted = append(accepted, ar.c)
				if wk.blockedOnLim && ccloseInStep {
					releasedByClose = true
					r.Class("acceptor-released-by-conn-close")
				}
			case ar.err != nil:
				if !lclosed {
					r.Class("stat:accept-error-while-open")
				} else if wk.wasBlocked {
					r.Class("blocked-accept-woken-by-listener-close")
				} else {
					r.Class("accept-error-after-listener-close")
				}
			default:
				return fmt.Errorf("%s: worker %d: Accept returned neither a connection nor an error", si, res.w)
			}
		}
		if err := mon.failure(); err != nil {
			return fmt.Errorf("%s: %w", si, err)
		}
		// laggy listener: what it handed out after Close and LimitListener did not
		// return must have been closed by LimitListener (every Accept that could
		// still do so has returned by now: none may be blocked after Close).
		if post := inner.postConns(); len(post) > 0 {
			for _, pc := range post {
				if !pc.counted.Load() && pc.closes.Load() == 0 {
					return fmt.Errorf("%s: conn %d, handed out by the wrapped listener after Close, was neither returned by Accept nor closed (leaked)", si, pc.id)
				}
			}
			if len(post) > postAtStart {
				r.Class("lag:conns-handed-out-after-close")
				if returnedAtStart >= int64(c.N) {
					r.Class("lag:after-close-with-all-slots-taken")
				}
			}
		}
		open := mon.taken.Load()
		if open > hw {
			hw = open
		}
		queued := int64(fed) - mon.handed.Load()
		for w := range ws {
			wk := &ws[w]
			wk.wasBlocked, wk.blockedOnLim = false, false
			if !pool.busy[w] {
				continue
			}
			switch wk.state {
			case c58InConnClose:
				return fmt.Errorf("%s: worker %d: Conn.Close is blocked (a repeated Close tried to free a second slot)", si, w)
			case c58InListenerClose:
				return fmt.Errorf("%s: worker %d: Listener.Close is blocked", si, w)
			case c58InAccept:
				switch {
				case lclosed:
					return fmt.Errorf("%s: worker %d: Accept is blocked after Close (%d of %d connections open)", si, w, open, c.N)
				case queued > 0 && open < hw:
					return fmt.Errorf("%s: worker %d: Accept is blocked with a connection queued and only %d connections open, although %d were open at once before: closing a connection did not free its slot", si, w, open, hw)
				case queued > 0 && open < int64(c.N):
					r.Class("stat:accept-blocked-below-limit")
				case queued > 0:
					wk.blockedOnLim = true
					r.Class("acceptor-blocked-on-limit")
				default:
					r.Class("acceptor-blocked-on-empty-queue")
				}
			}
			wk.wasBlocked = true
		}
		return nil
	}
	fail := func(err error) error {
		inner.Close()
		return err
	}
	for i, acts := range c.Sched {
		if err := step(fmt.Sprintf("step %d", i), acts, false); err != nil {
			return fail(err)
		}
	}
	// Release everything: close the listener (every pending Accept must return), then
	// every conn that is still open.
	if err := step("release (listener close)", []c58Act{{Op: "lclose"}}, true); err != nil {
		return fail(err)
	}
	// ... and one more Accept after Close: an error, without blocking.
	if err := step("release (accept after close)", []c58Act{{Op: "accept"}}, true); err != nil {
		return fail(err)
	}
	for j, conn := range accepted {
		if in := c58Inner(conn); in != nil && in.closes.Load() == 0 {
			if err := step(fmt.Sprintf("release (conn %d)", j), []c58Act{{Op: "cclose", J: j}}, true); err != nil {
				return fail(err)
			}
		}
	}
	for w := range ws {
		if pool.busy[w] {
			return fail(fmt.Errorf("release: worker %d never returned", w))
		}
	}
	pool.stop()
	r.Classf("n=%d", c.N)
	if hw == int64(c.N) {
		r.Class("limit-reached")
	}
	if doubleClose {
		r.Class("double-close")
	}
	if releasedByClose && doubleClose {
		r.NonTrivial()
		r.Class("nt:sched")
	}
	return nil
}

func TestVP_C58(t *testing.T) {
	vp.Run(t, vp.Spec[c58Case]{ID: "C58", Gen: c58Gen, Prop: c58Prop})
}

// ---------------------------------------------------------------------------
// stress: acceptors, closers and a feeder run in parallel (inside a bubble, so that a
// leaked slot shows up as a deadlock panic rather than a wall-clock timeout).

type c58StressCase struct {
	N          int    `json:"n"`
	Acceptors  int    `json:"acceptors"`
	Closers    int    `json:"closers"`
	Conns      int    `json:"conns"`
	Seed       uint32 `json:"seed"` // per-conn choice: close once / twice / from two goroutines
	RecloseNil bool   `json:"reclose_nil"`
}

func c58StressGen(t *rapid.T) c58StressCase {
	scale := 1
	if vp.Thorough() {
		scale = 4
	}
	return c58StressCase{
		N:          rapid.IntRange(1, 4).Draw(t, "n"),
		Acceptors:  rapid.IntRange(1, 8).Draw(t, "acceptors"),
		Closers:    rapid.IntRange(1, 6).Draw(t, "closers"),
		Conns:      rapid.IntRange(1, 60*scale).Draw(t, "conns"),
		Seed:       rapid.Uint32().Draw(t, "seed"),
		RecloseNil: rapid.Bool().Draw(t, "recloseNil"),
	}
}

func c58StressProp(c c58StressCase, r *vp.Rec) error {
	if c.N < 1 || c.N > 64 || c.Acceptors < 1 || c.Acceptors > 64 || c.Closers < 1 || c.Closers > 64 || c.Conns < 1 || c.Conns > 1<<20 {
		r.Discard("malformed case")
		return nil
	}
	if c.Acceptors > c.N && c.Conns > c.N {
		r.NonTrivial()
		r.Class("nt:stress")
	}
	return c58InBubble(func() error { return c58Stress(c, r) })
}

func c58Stress(c c58StressCase, r *vp.Rec) error {
	mon := &c58Monitor{limit: int64(c.N), expect: int64(c.Conns), allClosed: make(chan struct{}), recloseNil: c.RecloseNil}
	inner := c58NewListener(mon, c.Conns)
	ll := LimitListener(inner, c.N)
	toClose := make(chan net.Conn, 2*c.Conns)
	var acceptors, closers, feeder sync.WaitGroup
	feeder.Add(1)
	go func() {
		defer feeder.Done()
		for i := 0; i < c.Conns; i++ {
			inner.conns <- &c58Conn{id: i + 1, mon: mon}
			if i%3 == 0 {
				runtime.Gosched()
			}
		}
	}()
	for i := 0; i < c.Closers; i++ {
		closers.Add(1)
		go func() {
			defer closers.Done()
			for conn := range toClose {
				conn.Close()
			}
		}()
	}
	var afterCloseConn atomic.Int64
	for i := 0; i < c.Acceptors; i++ {
		acceptors.Add(1)
		go func() {
			defer acceptors.Done()
			for {
				conn, err := ll.Accept()
				if err != nil {
					return
				}
				mon.accountReturned(conn)
				in := c58Inner(conn)
				mode := uint32(0)
				if in != nil {
					mode = (c.Seed + uint32(in.id)*2654435761) >> 29 // 0..7
				}
				switch {
				case mode < 2: // close here, once
					conn.Close()
				case mode < 4: // close here, twice
					conn.Close()
					conn.Close()
				case mode < 6: // a closer closes it, and so do we: concurrent double close
					toClose <- conn
					conn.Close()
				default: // two closers close it
					toClose <- conn
					toClose <- conn
				}
			}
		}()
	}
	<-mon.allClosed // every conn was accepted and closed: no slot leaked
	ll.Close()
	if conn, err := ll.Accept(); err == nil {
		afterCloseConn.Add(1)
		if conn != nil {
			conn.Close()
		}
	}
	acceptors.Wait()
	close(toClose)
	closers.Wait()
	feeder.Wait()
	if err := mon.failure(); err != nil {
		return err
	}
	if afterCloseConn.Load() > 0 {
		return errors.New("Accept called after Close returned a connection instead of an error")
	}
	if got := mon.closedN.Load(); got != int64(c.Conns) {
		return fmt.Errorf("%d conns fed, %d closed", c.Conns, got)
	}
	if mon.maxTaken.Load() == int64(c.N) {
		r.Class("stress:limit-reached")
	}
	if mon.dblClosed.Load() > 0 {
		r.Class("stress:double-close")
	}
	return nil
}

func TestVP_C58_stress(t *testing.T) {
	vp.Run(t, vp.Spec[c58StressCase]{ID: "C58", Sub: "stress", Gen: c58StressGen, Prop: c58StressProp})
}
