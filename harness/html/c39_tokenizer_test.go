package html

// C39: HTML tokenization is lossless and total.
//
// Statement clauses and how they are asserted:
//   (a) never panics                      -> vp.Run/the fuzz target catch panics; Next, Raw, Token, Text,
//                                            TagName, TagAttr, Buffered and Err are all exercised
//   (b) total                             -> Next reaches ErrorToken within len(input)+8 calls
//   (c) concat(Raw) == input, except an   -> concat is a prefix of the input; when tokenization ended with
//       unterminated tag at the very end     io.EOF the missing remainder must be empty or be an unterminated
//                                            tag according to a scanner written from WHATWG 13.2.5.6-40
//   (d) SetMaxBuf(n): stops with          -> final error is io.EOF or ErrBufferExceeded; no token (including
//       ErrBufferExceeded instead of         the partial one at the error) spans more than n bytes; the
//       buffering more than the limit        internal buffer does not grow beyond max(4096, 4n+64)

import (
	"bytes"
	"errors"
	"fmt"
	"io"
	"testing"
	"unicode/utf8"

	"pgregory.net/rapid"
	"verif/vp"
)

type c39Case struct {
	Input       []byte `json:"input"`
	Chunks      []int  `json:"chunks"`
	EOFWithData bool   `json:"eof_with_data"`
	MaxBuf      int    `json:"max_buf"`
	CDATA       bool   `json:"cdata"`
	Ctx         string `json:"ctx"`
	Access      int    `json:"access"`
	NotRaw      bool   `json:"not_raw"`
	// Fail: the reader ends with an error of its own instead of io.EOF (with
	// eof_with_data: in the same Read call as the last bytes). What it delivered before
	// is input like any other.
	Fail bool `json:"fail,omitempty"`
}

var errC39Source = errors.New("c39: the source failed")

var c39Contexts = []string{"", "", "", "", "", "", "", "", "", "", "", "", "", "", "", "", "", "", "", "", "", "", "", "", "", "div", "title", "textarea", "script", "style", "plaintext", "xmp", "TITLE", "svg", "noscript"}
var c39MaxBufs = []int{0, 0, 0, 0, 0, 0, 0, 0, 0, 0, 0, 0, 0, 1, 2, 3, 4, 5, 7, 16, 64, 300, 4095, 4096, 4097, 8192}

func c39Gen(t *rapid.T) c39Case {
	return c39Case{
		Input:       soupGen(t, soupProfTokenizer),
		Chunks:      soupChunksGen(t),
		EOFWithData: rapid.Bool().Draw(t, "eofWithData"),
		MaxBuf:      rapid.SampledFrom(c39MaxBufs).Draw(t, "maxbuf"),
		CDATA:       rapid.Bool().Draw(t, "cdata"),
		Ctx:         rapid.SampledFrom(c39Contexts).Draw(t, "ctx"),
		Access:      rapid.IntRange(0, 4).Draw(t, "access"),
		NotRaw:      rapid.IntRange(0, 7).Draw(t, "notraw") == 0,
		Fail:        rapid.IntRange(0, 5).Draw(t, "fail") == 0,
	}
}

func c39IsWS(c byte) bool { return c == ' ' || c == '\n' || c == '\r' || c == '\t' || c == '\f' }
func c39IsAlpha(c byte) bool {
	return 'a' <= c && c <= 'z' || 'A' <= c && c <= 'Z'
}

// c39UnterminatedTag reports whether r is an unterminated start or end tag: it
// begins with "<x" or "</x" (x an ASCII letter) and the tag states of the HTML
// tokenizer (WHATWG 13.2.5.8 tag name ... 13.2.5.40 self-closing start tag) reach
// the end of r without seeing the '>' that ends the tag.
func c39UnterminatedTag(r []byte) bool {
	i := 0
	switch {
	case len(r) >= 2 && r[0] == '<' && c39IsAlpha(r[1]):
		i = 2
	case len(r) >= 3 && r[0] == '<' && r[1] == '/' && c39IsAlpha(r[2]):
		i = 3
	default:
		return false
	}
	const (
		tagName = iota
		beforeAttrName
		attrName
		afterAttrName
		beforeAttrValue
		valueDQ
		valueSQ
		valueUnq
		afterValueQuoted
		selfClosing
	)
	st := tagName
	for i < len(r) {
		c := r[i]
		switch st {
		case tagName:
			switch {
			case c39IsWS(c):
				st = beforeAttrName
			case c == '/':
				st = selfClosing
			case c == '>':
				return false
			}
			i++
		case beforeAttrName:
			switch {
			case c39IsWS(c):
				i++
			case c == '/' || c == '>':
				st = afterAttrName // reconsume
			default: // including '=': becomes the first character of the name
				st = attrName
				i++
			}
		case attrName:
			switch {
			case c39IsWS(c) || c == '/' || c == '>':
				st = afterAttrName // reconsume
			case c == '=':
				st = beforeAttrValue
				i++
			default:
				i++
			}
		case afterAttrName:
			switch {
			case c39IsWS(c):
				i++
			case c == '/':
				st = selfClosing
				i++
			case c == '=':
				st = beforeAttrValue
				i++
			case c == '>':
				return false
			default:
				st = attrName
				i++
			}
		case beforeAttrValue:
			switch {
			case c39IsWS(c):
				i++
			case c == '"':
				st = valueDQ
				i++
			case c == '\'':
				st = valueSQ
				i++
			case c == '>':
				return false
			default:
				st = valueUnq
				i++
			}
		case valueDQ:
			if c == '"' {
				st = afterValueQuoted
			}
			i++
		case valueSQ:
			if c == '\'' {
				st = afterValueQuoted
			}
			i++
		case valueUnq:
			switch {
			case c39IsWS(c):
				st = beforeAttrName
			case c == '>':
				return false
			}
			i++
		case afterValueQuoted:
			switch {
			case c39IsWS(c):
				st = beforeAttrName
				i++
			case c == '/':
				st = selfClosing
				i++
			case c == '>':
				return false
			default:
				st = beforeAttrName // reconsume
			}
		case selfClosing:
			if c == '>' {
				return false
			}
			st = beforeAttrName // reconsume
		}
	}
	return true
}

func c39Prop(c c39Case, r *vp.Rec) error {
	in := c.Input
	rd := &soupChunkReader{data: in, sizes: c.Chunks, eofWithData: c.EOFWithData}
	if c.Fail {
		rd.endErr = errC39Source
		r.Class("source-ends-with-its-own-error")
		if c.EOFWithData {
			r.Class("source-error-arrives-with-the-last-bytes")
		}
	}
	var z *Tokenizer
	if c.Ctx != "" {
		z = NewTokenizerFragment(rd, c.Ctx)
	} else {
		z = NewTokenizer(rd)
	}
	z.AllowCDATA(c.CDATA)
	if c.MaxBuf > 0 {
		z.SetMaxBuf(c.MaxBuf)
	}
	if z.rawTag != "" {
		r.Class("ctx-rawtext")
	}
	var concat []byte
	kinds := map[TokenType]bool{}
	ntok := 0
	sawRaw := z.rawTag != ""
	maxRaw := 0
	limit := len(in) + 8
	var tt TokenType
	var errRaw []byte
	for n := 0; ; n++ {
		if n > limit {
			return fmt.Errorf("tokenizer did not reach ErrorToken after %d calls to Next on %d input bytes: %s", n, len(in), soupQ(in))
		}
		tt = z.Next()
		raw := append([]byte(nil), z.Raw()...)
		if len(raw) > maxRaw {
			maxRaw = len(raw)
		}
		if c.MaxBuf > 0 && len(raw) > c.MaxBuf {
			return fmt.Errorf("SetMaxBuf(%d): %v token spans %d buffered bytes %s (input %s)", c.MaxBuf, tt, len(raw), soupQ(raw), soupQ(in))
		}
		if z.rawTag != "" {
			sawRaw = true
		}
		// exercise the accessors (none may panic)
		switch c.Access {
		case 1:
			_ = z.Token()
		case 2:
			_ = z.Text()
			name, more := z.TagName()
			_ = name
			for more {
				_, _, more = z.TagAttr()
			}
			_, _, _ = z.TagAttr()
		case 3:
			_ = z.Buffered()
			tk := z.Token()
			_ = tk.String()
			_ = z.Token()
		case 4:
			_, _, _ = z.TagAttr()
			_, _ = z.TagName()
			_ = z.Text()
			_ = z.Raw()
		}
		if tt == ErrorToken {
			errRaw = raw
			break
		}
		if c.NotRaw && tt == StartTagToken {
			z.NextIsNotRawText()
		}
		concat = append(concat, raw...)
		kinds[tt] = true
		ntok++
		if tt == TextToken && z.convertNUL && !sawRaw {
			r.Class("cdata-text")
		}
	}
	err := z.Err()
	buffered := append([]byte(nil), z.Buffered()...)
	// ErrorToken is sticky.
	for i := 0; i < 2; i++ {
		if tt2 := z.Next(); tt2 != ErrorToken {
			return fmt.Errorf("Next after ErrorToken returned %v (input %s)", tt2, soupQ(in))
		}
	}
	if !bytes.HasPrefix(in, concat) {
		return fmt.Errorf("concatenated Raw() %s is not a prefix of the input %s", soupQ(concat), soupQ(in))
	}
	rest := in[len(concat):]
	switch {
	case err == io.EOF && !c.Fail, err == errC39Source && c.Fail:
		if len(rest) != 0 {
			if !c39UnterminatedTag(rest) {
				return fmt.Errorf("lossy tokenization: Raw() of all tokens gives %s, input is %s; the omitted tail %s is not an unterminated tag", soupQ(concat), soupQ(in), soupQ(rest))
			}
			r.Class("dropped-unterminated-tag")
		}
	case err == ErrBufferExceeded:
		if c.MaxBuf == 0 {
			return fmt.Errorf("ErrBufferExceeded without SetMaxBuf (input %s)", soupQ(in))
		}
		r.Class("maxbuf-exceeded")
	default:
		return fmt.Errorf("tokenization ended with unexpected error %v (input %s)", err, soupQ(in))
	}
	if c.MaxBuf > 0 {
		bound := 4*c.MaxBuf + 64
		if bound < 4096 {
			bound = 4096
		}
		if cap(z.buf) > bound {
			return fmt.Errorf("SetMaxBuf(%d): internal buffer grew to cap %d (> %d)", c.MaxBuf, cap(z.buf), bound)
		}
		if err == io.EOF || err == errC39Source {
			r.Class("maxbuf-not-hit")
		}
	}
	// Documented Raw partition (also asserted by the repo's TestMaxBufferReconstruction):
	// tokens + the ErrorToken's raw bytes + Buffered() + unread input == input.
	re := append(append(append(append([]byte(nil), concat...), errRaw...), buffered...), rd.data...)
	if !bytes.Equal(re, in) {
		return fmt.Errorf("tokens+error raw+Buffered+unread = %s, input %s (err %v)", soupQ(re), soupQ(in), err)
	}

	if cap(z.buf) > 4096 {
		r.Class("buffer-reallocated")
	}
	if sawRaw {
		r.Class("rawtext")
	}
	if len(c.Chunks) > 0 {
		r.Class("chunked-reader")
	}
	if !utf8.Valid(in) {
		r.Class("invalid-utf8")
	}
	if bytes.IndexByte(in, 0) >= 0 {
		r.Class("nul")
	}
	for k := range kinds {
		r.Class("tok-" + k.String())
	}
	if (ntok >= 3 && len(kinds) >= 2) || sawRaw {
		r.NonTrivial()
	}
	return nil
}

// c39Known: key of the known finding whose predicate the case matches.
//
// c39-maxbuf-overrun-markup-decl: with SetMaxBuf(n), when the limit is hit inside
// readDoctype/readCDATA (input "<!" + a prefix of "DOCTYPE" or "[CDATA["), the
// tokenizer keeps calling readByte with z.err already set and returns a token whose
// raw span is n+1 or n+2 bytes.
func c39Known(c c39Case) string {
	if c.MaxBuf < 5 {
		return ""
	}
	low := bytes.ToLower(c.Input)
	if !bytes.Contains(low, []byte("<!do")) && !bytes.Contains(low, []byte("<![c")) {
		return ""
	}
	rd := &soupChunkReader{data: c.Input, sizes: c.Chunks, eofWithData: c.EOFWithData}
	var z *Tokenizer
	if c.Ctx != "" {
		z = NewTokenizerFragment(rd, c.Ctx)
	} else {
		z = NewTokenizer(rd)
	}
	z.AllowCDATA(c.CDATA)
	z.SetMaxBuf(c.MaxBuf)
	for n := 0; n < len(c.Input)+8; n++ {
		tt := z.Next()
		raw := z.Raw()
		if len(raw) > c.MaxBuf {
			l := bytes.ToLower(raw)
			if len(raw) <= c.MaxBuf+2 && (bytes.HasPrefix(l, []byte("<!do")) || bytes.HasPrefix(l, []byte("<![c"))) {
				return "c39-maxbuf-overrun-markup-decl"
			}
			return ""
		}
		if tt == ErrorToken {
			break
		}
		if c.NotRaw && tt == StartTagToken {
			z.NextIsNotRawText()
		}
	}
	return ""
}

func c39Sample(c c39Case) any {
	return map[string]any{"input": fmt.Sprintf("%q", c.Input), "chunks": c.Chunks, "max_buf": c.MaxBuf, "cdata": c.CDATA, "ctx": c.Ctx,
		"access": c.Access, "not_raw": c.NotRaw, "eof_with_data": c.EOFWithData}
}

func TestVP_C39(t *testing.T) {
	vp.Run(t, vp.Spec[c39Case]{ID: "C39", Gen: c39Gen, Prop: c39Prop, Known: c39Known, Sample: c39Sample})
}

func c39FuzzCase(data []byte, cfg uint32) c39Case {
	c := c39Case{Input: data}
	switch cfg & 3 {
	case 1:
		c.Chunks = []int{1}
	case 2:
		c.Chunks = []int{int(cfg>>20)%17 + 1, 0, int(cfg>>24)%5000 + 1}
	}
	c.EOFWithData = cfg&4 != 0
	c.CDATA = cfg&8 != 0
	c.MaxBuf = c39MaxBufs[int(cfg>>4)%len(c39MaxBufs)]
	c.Ctx = c39Contexts[int(cfg>>9)%len(c39Contexts)]
	c.Access = int(cfg>>13) % 5
	c.NotRaw = (cfg>>16)&7 == 0
	return c
}

func FuzzVP_C39(f *testing.F) {
	for _, s := range []string{"", "a", "<a href='x'>b</a>", "<script><!--<script></script>--></script>x", "<!DOCTYPE html><!--c--!><![CDATA[x]]>",
		"<title>&amp;</titl</title >", "<a b=\"c", "</a ", "<svg><![CDATA[a]]>b]]></svg>", "<plaintext></plaintext>", "\x00\r\n\xff<!-->", "<textarea></textarea></TEXTAREA/>"} {
		f.Add([]byte(s), uint32(0))
		f.Add([]byte(s), uint32(0x00030011))
		f.Add([]byte(s), uint32(0x12345679))
	}
	f.Fuzz(func(t *testing.T, data []byte, cfg uint32) {
		if len(data) > 1<<16 {
			return
		}
		c := c39FuzzCase(data, cfg)
		if soupKnownActive(c39Known(c)) {
			return
		}
		var err error
		func() {
			defer func() {
				if p := recover(); p != nil {
					err = fmt.Errorf("panic: %v", p)
				}
			}()
			err = c39Prop(c, nil)
		}()
		if err != nil {
			vp.FuzzFail(t, "C39", "", c, err)
		}
	})
}
