package html

// C40: HTML re-serialization preserves what the tokenizer and parser saw.
//
//   (1) UnescapeString(EscapeString(s)) == s for every string             -> TestVP_C40_escape
//   (2) for every tag, comment or doctype token, tokenizing its            -> TestVP_C40_token
//       Token.String() yields an equal token
//   (3) for a tree with text or attribute values under ordinary elements,  -> TestVP_C40_tree
//       Render followed by Parse reproduces those values (modulo the
//       parser's documented newline and NUL normalization) without
//       creating any additional element

import (
	"bytes"
	"fmt"
	"strings"
	"testing"

	"golang.org/x/net/html/atom"
	"pgregory.net/rapid"
	"verif/vp"
)

// ---------------------------------------------------------------- (1) escape

type c40EscCase struct {
	S []byte `json:"s"`
}

var c40Special = []string{"&", "<", ">", "\"", "'", "\r", "\n", "\x00", ";", "#", "&#", "&#x", "x", "X", "0", "1", "3", "9", "amp", "lt", "gt", "quot", "apos",
	"not", "notin", "notit", "NotEqualTilde", "acE", "nbsp", "&amp;", "&amp", "&lt;", "&#39;", "&#34;", "&#13;", "&#0;", "&#x80;", "&#xD800;", "&#x110000;",
	"\xff", "\xc0", "\xe2\x80", "é", "\U0001F600", " ", "=", "a", "b", "Z", "&&", "&;", "amp;amp;"}

func c40StringGen(t *rapid.T, label string) string {
	switch rapid.IntRange(0, 5).Draw(t, label+"-mode") {
	case 0:
		return string(vp.Bytes(0, 24).Draw(t, label+"-bytes"))
	case 1:
		// a named entity, possibly truncated / without the semicolon
		names := c40EntityNames()
		n := rapid.SampledFrom(names).Draw(t, label+"-entity")
		n = n[:rapid.IntRange(0, len(n)).Draw(t, label+"-cut")]
		return rapid.SampledFrom([]string{"&", "&amp;", "", "&#"}).Draw(t, label+"-pre") + n + rapid.SampledFrom([]string{"", ";", "=", "x", "&"}).Draw(t, label+"-post")
	default:
		return strings.Join(rapid.SliceOfN(rapid.SampledFrom(c40Special), 0, 10).Draw(t, label+"-parts"), "")
	}
}

var c40EntityNamesCache []string

func c40EntityNames() []string {
	if c40EntityNamesCache == nil {
		for k := range entity {
			c40EntityNamesCache = append(c40EntityNamesCache, k)
		}
		for k := range entity2 {
			c40EntityNamesCache = append(c40EntityNamesCache, k)
		}
		// deterministic order
		sortStrings(c40EntityNamesCache)
	}
	return c40EntityNamesCache
}

func sortStrings(a []string) {
	for i := 1; i < len(a); i++ {
		for j := i; j > 0 && a[j-1] > a[j]; j-- {
			a[j-1], a[j] = a[j], a[j-1]
		}
	}
}

func c40HasSpecial(s string) bool { return strings.ContainsAny(s, "<>&\"'\r\x00") }

func c40EscProp(c c40EscCase, r *vp.Rec) error {
	s := string(c.S)
	e := EscapeString(s)
	u := UnescapeString(e)
	if u != s {
		return fmt.Errorf("UnescapeString(EscapeString(%q)) = %q (escaped form %q)", s, u, e)
	}
	if c40HasSpecial(s) {
		r.NonTrivial()
		r.Class("has-special")
	}
	if strings.Contains(s, "&") {
		r.Class("has-ampersand")
	}
	if e != s {
		r.Class("escaped-differs")
	}
	return nil
}

func TestVP_C40_escape(t *testing.T) {
	vp.Run(t, vp.Spec[c40EscCase]{ID: "C40", Sub: "escape",
		Gen:    func(t *rapid.T) c40EscCase { return c40EscCase{S: []byte(c40StringGen(t, "s"))} },
		Prop:   c40EscProp,
		Sample: func(c c40EscCase) any { return fmt.Sprintf("%q", c.S) }})
}

// ---------------------------------------------------------------- (2) tokens

type c40TokCase struct {
	Input []byte `json:"input"`
	CDATA bool   `json:"cdata"`
}

func c40TokEqual(a, b Token) bool {
	if a.Type != b.Type || a.DataAtom != b.DataAtom || a.Data != b.Data || len(a.Attr) != len(b.Attr) {
		return false
	}
	for i := range a.Attr {
		if a.Attr[i] != b.Attr[i] {
			return false
		}
	}
	return true
}

// c40TokKnown classifies a failing token into a known-finding key ("" = unknown).
func c40TokKnown(tk Token) string {
	switch tk.Type {
	case CommentToken:
		if strings.Contains(tk.Data, "\r") {
			return "c40-comment-cr-not-escaped"
		}
	case DoctypeToken:
		if tk.Data != "" && strings.ContainsRune(whitespace, rune(tk.Data[0])) {
			return "c40-doctype-leading-space"
		}
	}
	return ""
}

// c40TokCheck runs clause (2) over every tag/comment/doctype token of the input.
// Failures that match a known finding are collected in known (when non-nil)
// instead of being returned.
func c40TokCheck(c c40TokCase, r *vp.Rec, known map[string]bool) error {
	z := NewTokenizer(bytes.NewReader(c.Input))
	z.AllowCDATA(c.CDATA)
	n := 0
	seenRaw := map[string]bool{}
	for {
		tt := z.Next()
		if tt == ErrorToken {
			break
		}
		if tt != TextToken {
			// long runs of identical tokens (padding) are checked once
			if seenRaw[string(z.Raw())] {
				continue
			}
			seenRaw[string(z.Raw())] = true
		}
		tk := z.Token()
		switch tt {
		case StartTagToken, EndTagToken, SelfClosingTagToken, CommentToken, DoctypeToken:
		default:
			continue
		}
		n++
		s := tk.String()
		z2 := NewTokenizer(strings.NewReader(s))
		var got []Token
		for len(got) < 4 {
			if z2.Next() == ErrorToken {
				break
			}
			got = append(got, z2.Token())
		}
		if len(got) != 1 || !c40TokEqual(got[0], tk) {
			if k := c40TokKnown(tk); k != "" && known != nil {
				known[k] = true
				continue
			}
			return fmt.Errorf("token %#v (from input %q) has String() %q, which tokenizes to %#v", tk, c.Input, s, got)
		}
		if r != nil {
			r.Class("tok-" + tt.String())
			if len(tk.Attr) >= 2 {
				r.Class("attrs>=2")
				r.NonTrivial()
			}
			for _, a := range tk.Attr {
				if c40HasSpecial(a.Val) {
					r.Class("attr-val-special")
					r.NonTrivial()
				}
			}
			if (tt == CommentToken || tt == DoctypeToken) && c40HasSpecial(tk.Data) {
				r.Class("data-special")
				r.NonTrivial()
			}
		}
	}
	if n == 0 && r != nil {
		r.Class("no-markup-token")
	}
	return nil
}

func c40TokProp(c c40TokCase, r *vp.Rec) error {
	return c40TokCheck(c, r, nil)
}

// c40TokKnownCase: the case fails, and only because of tokens matching known findings.
func c40TokKnownCase(c c40TokCase) string {
	if !bytes.Contains(c.Input, []byte("&#")) && !bytes.ContainsAny(c.Input, "\r") {
		return ""
	}
	known := map[string]bool{}
	if err := c40TokCheck(c, nil, known); err != nil {
		return ""
	}
	for _, k := range []string{"c40-comment-cr-not-escaped", "c40-doctype-leading-space"} {
		if known[k] {
			return k
		}
	}
	return ""
}

func TestVP_C40_token(t *testing.T) {
	vp.Run(t, vp.Spec[c40TokCase]{ID: "C40", Sub: "token",
		Gen: func(t *rapid.T) c40TokCase {
			return c40TokCase{Input: soupGenMode(t, soupProfTokenizer, true), CDATA: rapid.IntRange(0, 4).Draw(t, "cdata") == 0}
		},
		Prop:   c40TokProp,
		Known:  c40TokKnownCase,
		Sample: func(c c40TokCase) any { return map[string]any{"input": fmt.Sprintf("%q", c.Input), "cdata": c.CDATA} }})
}

// ---------------------------------------------------------------- (3) trees

// c40Node is the plain-data form of a generated tree.
type c40Node struct {
	Tag  string `json:"tag,omitempty"`  // "" = text node
	Text []byte `json:"text,omitempty"` // text node data
	// attribute values as bytes so that invalid UTF-8 survives JSON
	AttrK []string  `json:"attr_k,omitempty"`
	AttrV [][]byte  `json:"attr_v,omitempty"`
	Kids  []c40Node `json:"kids,omitempty"`
}

type c40TreeCase struct {
	Body []c40Node `json:"body"`
}

var c40AttrKeys = []string{"id", "class", "title", "href", "lang", "dir", "data-x", "style", "name", "value", "onclick", "aria-label"}

func c40TextGen(t *rapid.T) []byte {
	if rapid.IntRange(0, 3).Draw(t, "textkind") == 0 {
		return []byte(rapid.SampledFrom([]string{"</p>", "</div>", "<script>alert(1)</script>", "<!--", "-->", "<p>", "</span><b>", "<![CDATA[", "&lt;b&gt;",
			"<a href=\"x\">", "\n", "\r\n", "\r", "\x00", " ", "\n\n", "&amp;", "&#60;b&#62;", "<", ">", "\"><b>", "'><b>", "</title>", "</textarea>", "<plaintext>",
			"</body></html>", "<svg>", "\f", "\t"}).Draw(t, "textconst"))
	}
	return []byte(c40StringGen(t, "text"))
}

func c40AttrsGen(t *rapid.T, n *c40Node) {
	k := rapid.IntRange(0, 3).Draw(t, "nattr")
	if k == 3 {
		k = rapid.IntRange(0, 4).Draw(t, "nattr2")
	}
	used := map[string]bool{}
	for i := 0; i < k; i++ {
		key := rapid.SampledFrom(c40AttrKeys).Draw(t, "attrkey")
		if used[key] {
			continue
		}
		used[key] = true
		n.AttrK = append(n.AttrK, key)
		n.AttrV = append(n.AttrV, c40TextGen(t))
	}
}

// Grammar of generated trees (all in the HTML namespace, nesting that the HTML
// parser leaves alone):
//
//	flow     := div | blockquote | p | pre | ul | table | phrasing
//	div, blockquote, li, td: flow*      p, pre: phrasing*     ul: li*
//	table: tbody: tr*: td*              (no text directly in table/tbody/tr/ul)
//	phrasing := text | span | b | i | em | a      (no <a> inside <a>)
func c40PhrasingGen(t *rapid.T, depth int, inA bool) c40Node {
	k := rapid.IntRange(0, 9).Draw(t, "phr")
	if depth <= 0 || k < 5 {
		return c40Node{Text: c40TextGen(t)}
	}
	tag := rapid.SampledFrom([]string{"span", "b", "i", "em", "a", "span", "code"}).Draw(t, "phrtag")
	if tag == "a" && inA {
		tag = "span"
	}
	n := c40Node{Tag: tag}
	c40AttrsGen(t, &n)
	nk := rapid.IntRange(0, 3).Draw(t, "nkids")
	for i := 0; i < nk; i++ {
		n.Kids = append(n.Kids, c40PhrasingGen(t, depth-1, inA || tag == "a"))
	}
	return n
}

func c40FlowGen(t *rapid.T, depth int, inA bool) c40Node {
	k := rapid.IntRange(0, 9).Draw(t, "flow")
	if depth <= 0 || k < 4 {
		return c40PhrasingGen(t, depth, inA)
	}
	tag := rapid.SampledFrom([]string{"div", "blockquote", "p", "pre", "ul", "table", "div", "p", "listing"}).Draw(t, "flowtag")
	n := c40Node{Tag: tag}
	c40AttrsGen(t, &n)
	nk := rapid.IntRange(0, 3).Draw(t, "nkids")
	switch tag {
	case "div", "blockquote":
		for i := 0; i < nk; i++ {
			n.Kids = append(n.Kids, c40FlowGen(t, depth-1, false))
		}
	case "p", "pre", "listing":
		for i := 0; i < nk; i++ {
			n.Kids = append(n.Kids, c40PhrasingGen(t, depth-1, false))
		}
	case "ul":
		for i := 0; i < nk; i++ {
			li := c40Node{Tag: "li"}
			c40AttrsGen(t, &li)
			m := rapid.IntRange(0, 2).Draw(t, "nli")
			for j := 0; j < m; j++ {
				li.Kids = append(li.Kids, c40FlowGen(t, depth-2, false))
			}
			n.Kids = append(n.Kids, li)
		}
	case "table":
		tb := c40Node{Tag: "tbody"}
		for i := 0; i < nk; i++ {
			tr := c40Node{Tag: "tr"}
			m := rapid.IntRange(0, 2).Draw(t, "ntd")
			for j := 0; j < m; j++ {
				td := c40Node{Tag: "td"}
				c40AttrsGen(t, &td)
				q := rapid.IntRange(0, 2).Draw(t, "ntdkids")
				for l := 0; l < q; l++ {
					td.Kids = append(td.Kids, c40FlowGen(t, depth-3, false))
				}
				tr.Kids = append(tr.Kids, td)
			}
			tb.Kids = append(tb.Kids, tr)
		}
		n.Kids = append(n.Kids, tb)
	}
	return n
}

func c40TreeGen(t *rapid.T) c40TreeCase {
	n := rapid.IntRange(1, 4).Draw(t, "nbody")
	var c c40TreeCase
	for i := 0; i < n; i++ {
		c.Body = append(c.Body, c40FlowGen(t, 4, false))
	}
	return c
}

func c40Build(parent *Node, d c40Node) {
	if d.Tag == "" {
		if len(d.Text) == 0 {
			return // empty text nodes are not "text under an element"
		}
		parent.AppendChild(&Node{Type: TextNode, Data: string(d.Text)})
		return
	}
	n := &Node{Type: ElementNode, Data: d.Tag, DataAtom: atom.Lookup([]byte(d.Tag))}
	for i := range d.AttrK {
		n.Attr = append(n.Attr, Attribute{Key: d.AttrK[i], Val: string(d.AttrV[i])})
	}
	parent.AppendChild(n)
	for _, k := range d.Kids {
		c40Build(n, k)
	}
}

// c40Norm applies the normalisations the statement allows: CRLF and CR become LF,
// NUL is dropped or replaced by U+FFFD (so both are removed before comparing).
func c40Norm(s string) string {
	// NUL first: the parser drops NULs before the text reaches the tree, which can
	// make a CR and an LF adjacent.
	s = strings.ReplaceAll(s, "\x00", "")
	s = strings.ReplaceAll(s, "\ufffd", "")
	s = strings.ReplaceAll(s, "\r\n", "\n")
	s = strings.ReplaceAll(s, "\r", "\n")
	return s
}

// c40Shape writes a canonical description of the subtree: element names,
// attributes in order, and merged text runs, all normalised. The number of
// elements is returned as well.
func c40Shape(sb *strings.Builder, n *Node, elems *int, orig bool, amb *bool) {
	switch n.Type {
	case TextNode:
		// handled by the parent (merging)
	case ElementNode:
		*elems++
		fmt.Fprintf(sb, "<%s", n.Data)
		if n.Namespace != "" {
			fmt.Fprintf(sb, " ns=%s", n.Namespace)
		}
		// The statement speaks of values, not of attribute order (the parser sorts
		// the attributes of formatting elements for its Noah's Ark search).
		var as []string
		for _, a := range n.Attr {
			as = append(as, fmt.Sprintf(" %s:%s=%q", a.Namespace, a.Key, c40Norm(a.Val)))
		}
		sortStrings(as)
		sb.WriteString(strings.Join(as, ""))
		sb.WriteString(">")
		c40ShapeKids(sb, n, elems, orig, amb)
		fmt.Fprintf(sb, "</%s>", n.Data)
	case CommentNode:
		fmt.Fprintf(sb, "<!--%q-->", n.Data)
	case DoctypeNode:
		fmt.Fprintf(sb, "<!DOCTYPE %q>", n.Data)
	case DocumentNode:
		c40ShapeKids(sb, n, elems, orig, amb)
	default:
		fmt.Fprintf(sb, "<?type %d>", n.Type)
	}
}

func c40ShapeKids(sb *strings.Builder, n *Node, elems *int, orig bool, amb *bool) {
	var run strings.Builder
	first := true
	flush := func() {
		s := run.String()
		run.Reset()
		if orig && first && (n.Data == "pre" || n.Data == "listing") && n.Type == ElementNode && strings.HasPrefix(s, "\r") {
			// The parser drops one newline at the start of <pre>; Render protects a
			// leading LF only. Whether a leading CR (which can only come from a
			// programmatic tree or "&#13;") falls under "the parser's documented
			// newline normalization" is ambiguous: on the original side the leading
			// CR (and an LF after it) is removed, as the parser will do.
			*amb = true
			s = strings.TrimPrefix(strings.TrimPrefix(s, "\r"), "\n")
		}
		s = c40Norm(s)
		if s != "" {
			fmt.Fprintf(sb, "%q", s)
		}
	}
	for c := n.FirstChild; c != nil; c = c.NextSibling {
		if c.Type == TextNode {
			run.WriteString(c.Data)
			continue
		}
		flush()
		first = false
		c40Shape(sb, c, elems, orig, amb)
	}
	flush()
}

func c40TreeProp(c c40TreeCase, r *vp.Rec) error {
	doc := &Node{Type: DocumentNode}
	htmlN := &Node{Type: ElementNode, Data: "html", DataAtom: atom.Html}
	head := &Node{Type: ElementNode, Data: "head", DataAtom: atom.Head}
	body := &Node{Type: ElementNode, Data: "body", DataAtom: atom.Body}
	doc.AppendChild(htmlN)
	htmlN.AppendChild(head)
	htmlN.AppendChild(body)
	for _, d := range c.Body {
		c40Build(body, d)
	}
	var buf bytes.Buffer
	if err := Render(&buf, doc); err != nil {
		return fmt.Errorf("Render failed: %v", err)
	}
	doc2, err := Parse(bytes.NewReader(buf.Bytes()))
	if err != nil {
		return fmt.Errorf("Parse of rendered tree failed: %v (rendered %q)", err, buf.Bytes())
	}
	var s1, s2 strings.Builder
	var e1, e2 int
	var amb1, amb2 bool
	c40Shape(&s1, doc, &e1, true, &amb1)
	c40Shape(&s2, doc2, &e2, false, &amb2)
	if amb1 {
		r.Class("ambiguous-pre-leading-cr")
	}
	if e1 != e2 {
		return fmt.Errorf("tree with %d elements re-parses to %d elements\n original: %s\n rendered: %q\n reparsed: %s", e1, e2, s1.String(), buf.Bytes(), s2.String())
	}
	if s1.String() != s2.String() {
		return fmt.Errorf("text/attribute values not reproduced by Render+Parse\n original: %s\n rendered: %q\n reparsed: %s", s1.String(), buf.Bytes(), s2.String())
	}
	// classes
	special, attrs, elems := false, 0, 0
	for n := range doc.Descendants() {
		switch n.Type {
		case TextNode:
			if c40HasSpecial(n.Data) {
				special = true
			}
		case ElementNode:
			elems++
			for _, a := range n.Attr {
				attrs++
				if c40HasSpecial(a.Val) {
					special = true
				}
			}
		}
	}
	if special {
		r.Class("special-chars")
		r.NonTrivial()
	}
	if attrs > 0 {
		r.Class("has-attrs")
	}
	if elems >= 8 {
		r.Class("elements>=5")
	}
	if bytes.Contains(buf.Bytes(), []byte("<table")) {
		r.Class("table")
	}
	if bytes.Contains(buf.Bytes(), []byte("<pre")) {
		r.Class("pre")
	}
	if bytes.Contains(buf.Bytes(), []byte("<listing")) {
		r.Class("listing")
	}
	return nil
}

func TestVP_C40_tree(t *testing.T) {
	vp.Run(t, vp.Spec[c40TreeCase]{ID: "C40", Sub: "tree", Gen: c40TreeGen, Prop: c40TreeProp,
		Sample: func(c c40TreeCase) any {
			doc := &Node{Type: DocumentNode}
			for _, d := range c.Body {
				c40Build(doc, d)
			}
			var buf bytes.Buffer
			Render(&buf, doc)
			return fmt.Sprintf("%q", buf.Bytes())
		}})
}
