package atom

// C42: the HTML atom table is an exact dictionary.
//
//	Lookup(a.String()) == a for every defined atom a; String is non-empty for every
//	defined atom; Lookup returns 0 for every byte string that is not the name of an atom.
//
// Defined atoms are enumerated white-box from the non-zero entries of `table`;
// the set of atom names comes from the generated list testAtomList (the package's
// own table_test.go), and both views must describe the same set.

import (
	"fmt"
	"testing"

	"pgregory.net/rapid"
	"verif/vp"
)

var c42Names = func() map[string]bool {
	m := map[string]bool{}
	for _, s := range testAtomList {
		m[s] = true
	}
	return m
}()

// c42Collides reports whether s lands on a table slot holding an atom of the same
// length (the only strings for which `match` decides the outcome).
func c42Collides(s []byte) bool {
	if len(s) == 0 || len(s) > maxAtomLen {
		return false
	}
	h := fnv(hash0, s)
	for _, a := range []Atom{table[h&uint32(len(table)-1)], table[(h>>16)&uint32(len(table)-1)]} {
		if a != 0 && int(a&0xff) == len(s) {
			return true
		}
	}
	return false
}

// c42Miss checks the third clause for one string that is not an atom name.
func c42Miss(s []byte) error {
	if a := Lookup(s); a != 0 {
		return fmt.Errorf("Lookup(%q) = %#x (%q), want 0: not the name of an atom", s, uint32(a), a.String())
	}
	if got := String(s); got != string(s) {
		return fmt.Errorf("String(%q) = %q", s, got)
	}
	return nil
}

type c42EnumCase struct {
	S []byte `json:"s"`
}

func TestVP_C42_enum(t *testing.T) {
	vp.RunEnum(t, "C42", "enum", true, func(e *vp.Enum) {
		fail := func(s []byte, err error) { e.Fail(c42EnumCase{S: append([]byte(nil), s...)}, err) }
		// --- every defined atom (non-zero table entries)
		fromTable := map[string]Atom{}
		for _, a := range table {
			if a == 0 {
				continue
			}
			name := a.String()
			e.Eval(true, "defined-atom", func() any { return name })
			if name == "" {
				fail(nil, fmt.Errorf("atom %#x has an empty String()", uint32(a)))
				return
			}
			if got := Lookup([]byte(name)); got != a {
				fail([]byte(name), fmt.Errorf("Lookup(%q) = %#x, want %#x", name, uint32(got), uint32(a)))
				return
			}
			if prev, dup := fromTable[name]; dup {
				fail([]byte(name), fmt.Errorf("two atoms %#x and %#x have the name %q", uint32(prev), uint32(a), name))
				return
			}
			fromTable[name] = a
		}
		// --- the generated name list and the table describe the same set
		for _, name := range testAtomList {
			e.Eval(true, "listed-name", nil)
			a := Lookup([]byte(name))
			if a == 0 || a.String() != name {
				fail([]byte(name), fmt.Errorf("Lookup(%q) = %#x (%q): a listed atom name is not found", name, uint32(a), a.String()))
				return
			}
			if fromTable[name] != a {
				fail([]byte(name), fmt.Errorf("Lookup(%q) = %#x is not the table's atom %#x", name, uint32(a), uint32(fromTable[name])))
				return
			}
			if String([]byte(name)) != name {
				fail([]byte(name), fmt.Errorf("String(%q) = %q", name, String([]byte(name))))
				return
			}
		}
		if len(fromTable) != len(c42Names) {
			fail(nil, fmt.Errorf("table defines %d atoms, the name list has %d", len(fromTable), len(c42Names)))
			return
		}
		if Lookup([]byte("div")) != Div || Div.String() != "div" || Div == 0 || Lookup([]byte("a")) != A || Lookup([]byte("annotation-xml")) != AnnotationXml {
			fail([]byte("div"), fmt.Errorf("documented guarantee broken: Lookup(\"div\") = %#x, Div = %#x (%q)", uint32(Lookup([]byte("div"))), uint32(Div), Div.String()))
			return
		}
		// --- misses
		miss := func(s []byte, class string) bool {
			if c42Names[string(s)] {
				return true
			}
			if c42Collides(s) {
				e.Eval(true, "miss-same-slot-same-length", nil)
			} else {
				near := class == "miss-substitute-1" || class == "miss-delete-1" || class == "miss-insert-1"
				e.Eval(near, class, nil)
			}
			if err := c42Miss(s); err != nil {
				fail(s, err)
				return false
			}
			return true
		}
		buf := make([]byte, 0, 64)
		for _, name := range testAtomList {
			n := []byte(name)
			// one byte substituted (all 256 values at every position)
			for i := range n {
				for c := 0; c < 256; c++ {
					buf = append(buf[:0], n...)
					buf[i] = byte(c)
					if !miss(buf, "miss-substitute-1") {
						return
					}
				}
			}
			// last two bytes substituted (all 65536 values): ~256 of them share a slot
			if len(n) >= 2 {
				for c := 0; c < 65536; c++ {
					buf = append(buf[:0], n...)
					buf[len(n)-2], buf[len(n)-1] = byte(c>>8), byte(c)
					if !miss(buf, "miss-substitute-2") {
						return
					}
				}
			}
			// one byte deleted
			for i := range n {
				buf = append(append(buf[:0], n[:i]...), n[i+1:]...)
				if !miss(buf, "miss-delete-1") {
					return
				}
			}
			// one byte inserted
			for i := 0; i <= len(n); i++ {
				for c := 0; c < 256; c++ {
					buf = append(append(append(buf[:0], n[:i]...), byte(c)), n[i:]...)
					if !miss(buf, "miss-insert-1") {
						return
					}
				}
			}
			// every prefix, doubled, upper-cased variants
			for i := 0; i <= len(n); i++ {
				if !miss(n[:i], "miss-prefix") {
					return
				}
				buf = append(buf[:0], n...)
				for j := 0; j < i; j++ {
					if 'a' <= buf[j] && buf[j] <= 'z' {
						buf[j] -= 'a' - 'A'
					}
				}
				if !miss(buf, "miss-case") {
					return
				}
			}
			for _, other := range testAtomList {
				buf = append(append(buf[:0], n...), other...)
				if !miss(buf, "miss-concat") {
					return
				}
			}
		}
		// all strings of length <= 2, and length 3 over the atom alphabet
		if !miss(nil, "miss-short") {
			return
		}
		for c := 0; c < 256; c++ {
			if !miss([]byte{byte(c)}, "miss-short") {
				return
			}
			for d := 0; d < 256; d++ {
				if !miss([]byte{byte(c), byte(d)}, "miss-short") {
					return
				}
			}
		}
		const alpha = "abcdefghijklmnopqrstuvwxyz0123456789-"
		for i := 0; i < len(alpha); i++ {
			for j := 0; j < len(alpha); j++ {
				for k := 0; k < len(alpha); k++ {
					if !miss([]byte{alpha[i], alpha[j], alpha[k]}, "miss-short") {
						return
					}
				}
			}
		}
		e.Note(fmt.Sprintf("exhaustive: %d defined atoms; all 1-byte substitutions/insertions/deletions, all substitutions of the last two bytes, prefixes, case variants and pairwise concatenations of every atom name; all byte strings of length <= 2; all strings of length 3 over [a-z0-9-]", len(fromTable)))
	})
}

type c42Case struct {
	S []byte `json:"s"`
}

func c42Gen(t *rapid.T) c42Case {
	switch rapid.IntRange(0, 5).Draw(t, "mode") {
	case 0:
		return c42Case{S: vp.Bytes(0, 32).Draw(t, "bytes")}
	case 1:
		return c42Case{S: rapid.SliceOfN(rapid.SampledFrom([]byte("abcdefghijklmnopqrstuvwxyz0123456789-")), 1, 26).Draw(t, "alpha")}
	case 2:
		// longer than any atom
		return c42Case{S: vp.Bytes(maxAtomLen, maxAtomLen+40).Draw(t, "long")}
	default:
		// an atom name with 0-3 random edits
		s := []byte(rapid.SampledFrom(testAtomList).Draw(t, "atom"))
		k := rapid.IntRange(0, 3).Draw(t, "edits")
		for i := 0; i < k; i++ {
			switch rapid.IntRange(0, 3).Draw(t, "edit") {
			case 0:
				if len(s) > 0 {
					s[rapid.IntRange(0, len(s)-1).Draw(t, "pos")] = rapid.Byte().Draw(t, "b")
				}
			case 1:
				p := rapid.IntRange(0, len(s)).Draw(t, "pos")
				s = append(s[:p], append([]byte{rapid.Byte().Draw(t, "b")}, s[p:]...)...)
			case 2:
				if len(s) > 0 {
					p := rapid.IntRange(0, len(s)-1).Draw(t, "pos")
					s = append(s[:p], s[p+1:]...)
				}
			default:
				if len(s) > 0 {
					p := rapid.IntRange(0, len(s)-1).Draw(t, "pos")
					s[p] ^= 0x20
				}
			}
		}
		return c42Case{S: s}
	}
}

func c42Prop(c c42Case, r *vp.Rec) error {
	s := c.S
	if c42Names[string(s)] {
		r.Class("hit")
		a := Lookup(s)
		if a == 0 || a.String() != string(s) {
			return fmt.Errorf("Lookup(%q) = %#x (%q), want the atom of that name", s, uint32(a), a.String())
		}
		if Lookup([]byte(a.String())) != a {
			return fmt.Errorf("Lookup(%q.String()) != a", s)
		}
		r.NonTrivial()
		return nil
	}
	if c42Collides(s) {
		r.Class("miss-same-slot-same-length")
		r.NonTrivial()
	} else {
		r.Class("miss")
	}
	if len(s) > maxAtomLen {
		r.Class("miss-too-long")
	}
	// within edit distance 1 of an atom name?
	if c42NearAtom(s) {
		r.Class("miss-edit-distance-1")
		r.NonTrivial()
	}
	return c42Miss(s)
}

func c42NearAtom(s []byte) bool {
	// deletion from s, substitution in s (try restoring each byte is too costly): use
	// the cheap direction only: delete one byte of s, or s is an atom minus one byte /
	// with one byte substituted (checked against every name of a compatible length).
	for i := range s {
		if c42Names[string(s[:i])+string(s[i+1:])] {
			return true
		}
	}
	for _, name := range testAtomList {
		switch len(name) - len(s) {
		case 0:
			d := 0
			for i := range s {
				if s[i] != name[i] {
					d++
				}
			}
			if d == 1 {
				return true
			}
		case 1:
			for i := 0; i <= len(s); i++ {
				if string(s[:i]) == name[:i] && string(s[i:]) == name[i+1:] {
					return true
				}
			}
		}
	}
	return false
}

func TestVP_C42(t *testing.T) {
	vp.Run(t, vp.Spec[c42Case]{ID: "C42", Gen: c42Gen, Prop: c42Prop,
		Sample: func(c c42Case) any { return fmt.Sprintf("%q", c.S) }})
}
