package html

// C41: HTML parsing terminates and always yields a well-formed node tree.
//
// For any input (document or fragment with any context element, scripting on or
// off) Parse/ParseFragment terminate without panicking and return a tree whose
// parent, first/last child and sibling links are mutually consistent and acyclic,
// containing only valid node types; rendering any returned tree succeeds.

import (
	"bytes"
	"fmt"
	"strings"
	"testing"
	"time"

	"golang.org/x/net/html/atom"
	"pgregory.net/rapid"
	"verif/vp"
)

type c41Case struct {
	Input     []byte      `json:"input"`
	Frag      bool        `json:"frag"`    // ParseFragment instead of Parse
	CtxNil    bool        `json:"ctx_nil"` // ParseFragment with a nil context
	CtxNS     string      `json:"ctx_ns"`
	CtxTag    string      `json:"ctx_tag"`
	CtxAttr   [][2]string `json:"ctx_attr"`
	CtxInForm bool        `json:"ctx_in_form"` // the context element has a <form> ancestor
	Scripting bool        `json:"scripting"`
	Chunks    []int       `json:"chunks"`
}

type c41Ctx struct {
	ns, tag string
	attr    [][2]string
}

var c41Contexts = []c41Ctx{
	{"", "div", nil}, {"", "body", nil}, {"", "html", nil}, {"", "head", nil}, {"", "p", nil}, {"", "span", nil}, {"", "a", nil}, {"", "b", nil},
	{"", "table", nil}, {"", "tbody", nil}, {"", "thead", nil}, {"", "tfoot", nil}, {"", "tr", nil}, {"", "td", nil}, {"", "th", nil},
	{"", "caption", nil}, {"", "colgroup", nil}, {"", "col", nil}, {"", "select", nil}, {"", "option", nil}, {"", "optgroup", nil},
	{"", "template", nil}, {"", "frameset", nil}, {"", "form", nil}, {"", "button", nil}, {"", "li", nil}, {"", "ul", nil}, {"", "pre", nil},
	{"", "script", nil}, {"", "style", nil}, {"", "title", nil}, {"", "textarea", nil}, {"", "plaintext", nil}, {"", "xmp", nil},
	{"", "iframe", nil}, {"", "noembed", nil}, {"", "noframes", nil}, {"", "noscript", nil}, {"", "object", nil}, {"", "marquee", nil},
	{"", "applet", nil}, {"", "br", nil}, {"", "input", nil}, {"", "nobr", nil}, {"", "h1", nil}, {"", "dd", nil}, {"", "ruby", nil},
	{"", "tagfromthefuture", nil}, {"", "x-y", nil}, {"", "svg", nil}, {"", "math", nil},
	{"svg", "svg", nil}, {"svg", "g", nil}, {"svg", "foreignObject", nil}, {"svg", "desc", nil}, {"svg", "title", nil}, {"svg", "script", nil},
	{"svg", "style", nil}, {"svg", "textarea", nil}, {"svg", "template", nil}, {"svg", "table", nil}, {"svg", "foreignobject", nil},
	{"math", "math", nil}, {"math", "mi", nil}, {"math", "mo", nil}, {"math", "mn", nil}, {"math", "ms", nil}, {"math", "mtext", nil},
	{"math", "annotation-xml", nil}, {"math", "annotation-xml", [][2]string{{"encoding", "text/html"}}},
	{"math", "annotation-xml", [][2]string{{"encoding", "application/xhtml+xml"}}}, {"math", "annotation-xml", [][2]string{{"encoding", "x"}}},
	{"math", "title", nil}, {"math", "template", nil}, {"math", "select", nil}, {"math", "tr", nil},
}

func c41Gen(t *rapid.T) c41Case {
	c := c41Case{
		Input:     soupGen(t, soupProfTree),
		Scripting: rapid.Bool().Draw(t, "scripting"),
	}
	if rapid.IntRange(0, 7).Draw(t, "chunked") == 0 {
		c.Chunks = soupChunksGen(t)
	}
	switch k := rapid.IntRange(0, 9).Draw(t, "api"); {
	case k < 4:
		// Parse
	case k == 4:
		c.Frag, c.CtxNil = true, true
	default:
		c.Frag = true
		x := rapid.SampledFrom(c41Contexts).Draw(t, "ctx")
		c.CtxNS, c.CtxTag, c.CtxAttr = x.ns, x.tag, x.attr
		c.CtxInForm = rapid.IntRange(0, 4).Draw(t, "inform") == 0
	}
	return c
}

// c41CheckTree checks the statement's structural clauses for the tree rooted at
// root. seen is shared between the roots of one result so that a node reachable
// from two roots is reported as sharing.
func c41CheckTree(root *Node, seen map[*Node]bool, stats *c41Stats) error {
	if root == nil {
		return fmt.Errorf("nil root node")
	}
	if root.Parent != nil || root.PrevSibling != nil || root.NextSibling != nil {
		return fmt.Errorf("returned root %s still has parent/sibling links", c41Desc(root))
	}
	type frame struct {
		n     *Node
		depth int
	}
	stack := []frame{{root, 1}}
	for len(stack) > 0 {
		f := stack[len(stack)-1]
		stack = stack[:len(stack)-1]
		n := f.n
		if seen[n] {
			return fmt.Errorf("node %s is reachable twice (cycle or shared node)", c41Desc(n))
		}
		seen[n] = true
		stats.nodes++
		if f.depth > stats.depth {
			stats.depth = f.depth
		}
		switch n.Type {
		case TextNode, ElementNode, CommentNode, DoctypeNode:
		case DocumentNode:
			if n != root {
				// still a defined node type; only note it
				stats.nestedDoc = true
			}
		default:
			return fmt.Errorf("node %s has invalid type %v (%d)", c41Desc(n), n.Type, uint32(n.Type))
		}
		if n.Type == ElementNode {
			if n.Namespace != "" {
				stats.foreign = true
			}
			if n.DataAtom == atom.Template {
				stats.template = true
			}
			if n.DataAtom == atom.Table {
				stats.table = true
			}
		}
		if (n.FirstChild == nil) != (n.LastChild == nil) {
			return fmt.Errorf("node %s: FirstChild/LastChild nil-ness differs", c41Desc(n))
		}
		var prev *Node
		local := map[*Node]bool{}
		for ch := n.FirstChild; ch != nil; ch = ch.NextSibling {
			if local[ch] {
				return fmt.Errorf("node %s: sibling list of its children is cyclic at %s", c41Desc(n), c41Desc(ch))
			}
			local[ch] = true
			if ch.Parent != n {
				return fmt.Errorf("child %s of %s has Parent %s", c41Desc(ch), c41Desc(n), c41Desc(ch.Parent))
			}
			if ch.PrevSibling != prev {
				return fmt.Errorf("child %s of %s: PrevSibling is %s, want %s", c41Desc(ch), c41Desc(n), c41Desc(ch.PrevSibling), c41Desc(prev))
			}
			if ch == n {
				return fmt.Errorf("node %s is its own child", c41Desc(n))
			}
			prev = ch
			stack = append(stack, frame{ch, f.depth + 1})
		}
		if prev != n.LastChild {
			return fmt.Errorf("node %s: LastChild is %s but the sibling chain ends at %s", c41Desc(n), c41Desc(n.LastChild), c41Desc(prev))
		}
		if n.FirstChild != nil && n.FirstChild.PrevSibling != nil {
			return fmt.Errorf("node %s: FirstChild has a PrevSibling", c41Desc(n))
		}
		if n.LastChild != nil && n.LastChild.NextSibling != nil {
			return fmt.Errorf("node %s: LastChild has a NextSibling", c41Desc(n))
		}
	}
	return nil
}

type c41Stats struct {
	nodes, depth int
	foreign      bool
	template     bool
	table        bool
	nestedDoc    bool
}

func c41Desc(n *Node) string {
	if n == nil {
		return "<nil>"
	}
	d := n.Data
	if len(d) > 20 {
		d = d[:20] + "..."
	}
	if n.Namespace != "" {
		return fmt.Sprintf("%v(%s %q)", n.Type, n.Namespace, d)
	}
	return fmt.Sprintf("%v(%q)", n.Type, d)
}

type c41Result struct {
	roots []*Node
	err   error
	pan   any
	stack string
}

const c41Guard = 30 * time.Second

func c41Parse(c c41Case) (res c41Result, timedOut bool) {
	ch := make(chan c41Result, 1)
	go func() {
		var res c41Result
		defer func() {
			if p := recover(); p != nil {
				res.pan = p
			}
			ch <- res
		}()
		rd := &soupChunkReader{data: c.Input, sizes: c.Chunks}
		opt := ParseOptionEnableScripting(c.Scripting)
		if !c.Frag {
			doc, err := ParseWithOptions(rd, opt)
			res.err = err
			if err == nil {
				res.roots = []*Node{doc}
			}
			return
		}
		var ctx *Node
		if !c.CtxNil {
			ctx = &Node{Type: ElementNode, Data: c.CtxTag, DataAtom: atom.Lookup([]byte(c.CtxTag)), Namespace: c.CtxNS}
			for _, kv := range c.CtxAttr {
				ctx.Attr = append(ctx.Attr, Attribute{Key: kv[0], Val: kv[1]})
			}
			if c.CtxInForm {
				form := &Node{Type: ElementNode, Data: "form", DataAtom: atom.Form}
				form.AppendChild(ctx)
			}
		}
		nodes, err := ParseFragmentWithOptions(rd, ctx, opt)
		res.err = err
		if err == nil {
			res.roots = nodes
		}
	}()
	// Generous wall-clock guard for non-termination; parsing these inputs takes
	// well under 100 ms. It does not influence the verdict otherwise.
	select {
	case res = <-ch:
		return res, false
	case <-time.After(c41Guard):
		return res, true
	}
}

func c41Prop(c c41Case, r *vp.Rec) error {
	in := c.Input
	res, timedOut := c41Parse(c)
	if timedOut {
		return fmt.Errorf("parser did not terminate within %v on %d input bytes: %s", c41Guard, len(in), soupQ(in))
	}
	if res.pan != nil {
		return fmt.Errorf("parser panicked: %v (input %s)", res.pan, soupQ(in))
	}
	if c.Frag {
		r.Class("fragment")
		if c.CtxNil {
			r.Class("fragment-nil-context")
		} else if c.CtxNS != "" {
			r.Class("fragment-foreign-context")
		}
	} else {
		r.Class("document")
	}
	if res.err != nil && c.Frag && c.CtxNil {
		// A nil context is not "a context element": outside the statement. (Observed:
		// ParseFragment(r, nil) returns a recovered nil-pointer panic as its error for
		// inputs with <input> or <select> in body, parse.go "p.context.DataAtom".)
		r.Class("nil-context-error(outside-statement)")
		return nil
	}
	if res.err != nil {
		// Documented: "Parse will reject HTML that is nested deeper than 512 elements."
		if strings.Contains(res.err.Error(), "exceeds 512 nodes") {
			r.Class("rejected-depth-512")
			return nil
		}
		// Any other error on a reader that cannot fail is an internal panic that
		// parser.parse recovered and turned into an error: no tree is returned.
		return fmt.Errorf("parser returned error %q (a recovered internal panic) instead of a tree; input %s", res.err, soupQ(in))
	}
	seen := map[*Node]bool{}
	var st c41Stats
	for i, root := range res.roots {
		if err := c41CheckTree(root, seen, &st); err != nil {
			return fmt.Errorf("root %d: %v (input %s)", i, err, soupQ(in))
		}
	}
	for i, root := range res.roots {
		var buf bytes.Buffer
		if err := Render(&buf, root); err != nil {
			return fmt.Errorf("Render of returned root %d (%s) failed: %v (input %s)", i, c41Desc(root), err, soupQ(in))
		}
	}
	if !c.Frag && len(res.roots) == 1 && res.roots[0].Type != DocumentNode {
		return fmt.Errorf("Parse returned a %v root", res.roots[0].Type)
	}

	// classes / non-triviality
	var toks []Token
	z := NewTokenizer(bytes.NewReader(in))
	for z.Next() != ErrorToken {
		toks = append(toks, z.Token())
	}
	balanced := soupBalanced(toks)
	if !balanced {
		r.Class("misnested-input")
	}
	if st.foreign {
		r.Class("foreign-elements")
	}
	if st.template {
		r.Class("template")
	}
	if st.table {
		r.Class("table")
	}
	if st.nestedDoc {
		r.Class("nested-document-node")
	}
	switch {
	case st.depth >= 100:
		r.Class("depth>=100")
	case st.depth >= 10:
		r.Class("depth>=10")
	case st.depth >= 4:
		r.Class("depth>=4")
	}
	if st.nodes >= 1000 {
		r.Class("nodes>=1000")
	}
	if len(c.Chunks) > 0 {
		r.Class("chunked-reader")
	}
	if !c.Scripting {
		r.Class("scripting-off")
	}
	if st.depth >= 4 && !balanced {
		r.NonTrivial()
	}
	return nil
}

var c41VoidNonBreakout = []string{"area", "base", "col", "input", "keygen", "link", "param", "source", "track", "wbr"}

// c41Known: key of the known finding whose predicate the case matches.
//
// c41-render-foreign-void-with-children: in foreign content (svg/math) a start tag
// named like an HTML void element that does not break out of foreign content
// (area, base, col, input, keygen, link, param, source, track, wbr) becomes an
// ordinary svg/math element and receives children; Render looks only at the
// name, not the namespace, and fails with "void element <x> has child nodes".
// The predicate: every void-named element with children in the parsed tree is in
// a non-HTML namespace (and there is at least one).
//
// c41-fragment-foreign-template-context: ParseFragment with a context element named
// "template" in the svg or math namespace (as produced by parsing "<svg><template>"):
// resetInsertionMode skips the context ("if n.Namespace != \"\" { continue }") and
// leaves p.im nil; the first token then calls a nil insertion mode. Every input fails.
func c41Known(c c41Case) string {
	if c.Frag && !c.CtxNil && c.CtxNS != "" && c.CtxTag == "template" {
		return "c41-fragment-foreign-template-context"
	}
	low := bytes.ToLower(c.Input)
	// c41-fragment-foreign-context-end-html: ParseFragment with an svg/math context:
	// the stack of open elements is just the synthetic <html> root while the adjusted
	// current node is the foreign context, so parseForeignContent handles "</html>"
	// by popping the root (it lacks the spec's "if node is the topmost element in the
	// stack of open elements, return" fragment-case step). With an empty stack later
	// tokens dereference p.oe.top() == nil or index p.oe[-1].
	if c.Frag && !c.CtxNil && c.CtxNS != "" && bytes.Contains(low, []byte("</html")) {
		res, timedOut := c41Parse(c)
		if !timedOut && res.pan == nil && res.err != nil && !strings.Contains(res.err.Error(), "exceeds 512 nodes") {
			return "c41-fragment-foreign-context-end-html"
		}
	}
	// c41-fragment-head-context-pops-root: ParseFragment with an HTML <head> context
	// starts in inHeadIM (a documented divergence from the spec, which says "in body"
	// for the fragment case); an end tag </head>, </body>, </html> or </br> then pops the
	// only open element, the synthetic <html> root. Later tokens panic ("bad parser
	// state: <html> element not found", nil dereference in inFramesetIM, ...).
	if c.Frag && !c.CtxNil && c.CtxNS == "" && c.CtxTag == "head" && (bytes.Contains(low, []byte("</")) || (!c.Scripting && bytes.Contains(low, []byte("<noscript")))) {
		res, timedOut := c41Parse(c)
		if !timedOut && res.pan == nil && res.err != nil && !strings.Contains(res.err.Error(), "exceeds 512 nodes") {
			// c41-fragment-head-context-noscript: same root cause, other symptom. With
			// scripting disabled, "<noscript>" followed by EOF or by any token that leaves
			// inHeadNoscriptIM panics ("the new current node will be a head element"): the
			// <head> expected below <noscript> is the context, which is not on the stack.
			if strings.Contains(res.err.Error(), "the new current node will be a head element") {
				return "c41-fragment-head-context-noscript"
			}
			return "c41-fragment-head-context-pops-root"
		}
	}
	hit := false
	for _, v := range c41VoidNonBreakout {
		if bytes.Contains(low, []byte("<"+v)) {
			hit = true
			break
		}
	}
	if !hit {
		return ""
	}
	if c.CtxNS == "" && !bytes.Contains(low, []byte("<svg")) && !bytes.Contains(low, []byte("<math")) {
		return ""
	}
	res, timedOut := c41Parse(c)
	if timedOut || res.pan != nil || res.err != nil {
		return ""
	}
	foreign, html := 0, 0
	for _, root := range res.roots {
		for n := range root.Descendants() {
			if n.Type == ElementNode && voidElements[n.Data] && n.FirstChild != nil {
				if n.Namespace != "" {
					foreign++
				} else {
					html++
				}
			}
		}
		if root.Type == ElementNode && voidElements[root.Data] && root.FirstChild != nil {
			if root.Namespace != "" {
				foreign++
			} else {
				html++
			}
		}
	}
	if foreign > 0 && html == 0 {
		return "c41-render-foreign-void-with-children"
	}
	return ""
}

func c41Sample(c c41Case) any {
	return map[string]any{"input": fmt.Sprintf("%q", c.Input), "frag": c.Frag, "ctx_nil": c.CtxNil, "ctx": c.CtxNS + " " + c.CtxTag,
		"ctx_attr": c.CtxAttr, "ctx_in_form": c.CtxInForm, "scripting": c.Scripting, "chunks": c.Chunks}
}

func TestVP_C41(t *testing.T) {
	vp.Run(t, vp.Spec[c41Case]{ID: "C41", Gen: c41Gen, Prop: c41Prop, Known: c41Known, Sample: c41Sample})
}

func c41FuzzCase(data []byte, cfg uint32) c41Case {
	c := c41Case{Input: data, Scripting: cfg&1 != 0}
	switch (cfg >> 1) & 3 {
	case 0, 1:
	case 2:
		c.Frag, c.CtxNil = true, cfg&8 != 0
		fallthrough
	default:
		c.Frag = true
		x := c41Contexts[int(cfg>>8)%len(c41Contexts)]
		c.CtxNS, c.CtxTag, c.CtxAttr = x.ns, x.tag, x.attr
		c.CtxInForm = cfg&16 != 0
	}
	if cfg&32 != 0 {
		c.Chunks = []int{1}
	}
	return c
}

func FuzzVP_C41(f *testing.F) {
	for _, s := range []string{"", "<a><table><a>", "<b><p></b>x", "<table><tr><td><svg><desc><td>", "<select><option><optgroup>", "<template><td></template>",
		"<frameset><frame></frameset>", "<svg><foreignObject><p></svg>", "<math><annotation-xml encoding=text/html><p>", "<!DOCTYPE html PUBLIC \"a'b\" 'c\"d'>",
		"<p><table></p>", "<svg><input>x</input>", "<table><plaintext>", "<a><nobr><a><nobr>", "<button><button><p></button>"} {
		f.Add([]byte(s), uint32(1))
		f.Add([]byte(s), uint32(0x0507))
		f.Add([]byte(s), uint32(0x3305))
	}
	f.Fuzz(func(t *testing.T, data []byte, cfg uint32) {
		if len(data) > 1<<15 {
			return
		}
		c := c41FuzzCase(data, cfg)
		if soupKnownActive(c41Known(c)) {
			return
		}
		var err error
		func() {
			defer func() {
				if p := recover(); p != nil {
					err = fmt.Errorf("panic: %v", p)
				}
			}()
			err = c41Prop(c, nil)
		}()
		if err != nil {
			vp.FuzzFail(t, "C41", "", c, err)
		}
	})
}
