package html

// Shared HTML-soup generator for C39, C40 and C41.
//
// The generator emits byte strings that are dense in the constructs the
// tokenizer and the tree builder treat specially. It is deliberately NOT a
// generator of valid HTML: pieces are concatenated without regard for nesting,
// and the result can be truncated at any byte.

import (
	"encoding/json"
	"fmt"
	"io"
	"os"
	"strings"
	"sync"

	"pgregory.net/rapid"
	"verif/vp"
)

const (
	soupProfTokenizer = iota // weight on lexical oddities
	soupProfTree             // weight on tags that drive the tree builder
)

var soupTagNames = []string{
	// document structure
	"html", "head", "body", "title", "base", "link", "meta", "frameset", "frame", "noframes",
	// raw text / RCDATA
	"script", "style", "textarea", "plaintext", "xmp", "iframe", "noembed", "noscript",
	// formatting (adoption agency)
	"a", "b", "i", "em", "font", "nobr", "s", "u", "code", "big", "small", "strong", "strike", "tt",
	// special / scoping
	"p", "div", "span", "li", "ul", "ol", "dd", "dt", "dl", "h1", "h2", "h6", "form", "button",
	"applet", "marquee", "object", "address", "center", "blockquote", "pre", "listing", "details", "summary",
	"ruby", "rb", "rt", "rtc", "rp", "menu", "dialog", "main", "nav", "section", "search",
	// tables
	"table", "caption", "colgroup", "col", "tbody", "thead", "tfoot", "tr", "td", "th",
	// select
	"select", "option", "optgroup", "hr", "input", "keygen", "selectedcontent",
	// template
	"template",
	// void and oddities
	"br", "img", "image", "isindex", "embed", "area", "wbr", "param", "source", "track", "bgsound", "menuitem",
	// foreign content
	"svg", "math", "mi", "mo", "mn", "ms", "mtext", "mglyph", "malignmark", "annotation-xml",
	"foreignObject", "foreignobject", "desc", "g", "path", "clipPath", "clippath", "altGlyph",
	// unknown
	"foo", "x-y", "a:b", "sarcasm",
}

var soupAttrKeys = []string{
	"id", "class", "href", "type", "name", "value", "color", "face", "size", "encoding",
	"xlink:href", "xml:lang", "xmlns", "xmlns:xlink", "definitionurl", "viewbox", "action", "prompt",
	"selected", "checked", "a", "b", "A", "=", "a=", "\"", "'", "<", "a\x00", "\xff", "é", "hidden",
}

var soupAttrVals = []string{
	"", "x", "hidden", "HIDDEN", "text/html", "application/xhtml+xml", "TEXT/HTML", "a b", "a>b", "a<b",
	"&amp;", "&lt", "&amp=", "&notit;", "&#0;", "&#13;", "&#x80;", "\x00", "\r\n", "\r", "\n", "/", "a/", "'", "\"",
	"`", "=", "http://www.w3.org/2000/svg", "http://www.w3.org/1999/xlink", "\xff\xfe", "é",
}

var soupEntities = []string{
	"&amp;", "&lt;", "&gt;", "&quot;", "&apos;", "&amp", "&lt", "&gt", "&quot", "&notit;", "&notin;", "&not", "&nbsp;",
	"&NotEqualTilde;", "&acE;", "&#0;", "&#x0;", "&#13;", "&#10;", "&#9;", "&#32;", "&#12;", "&#x80;", "&#x9f;", "&#xD800;",
	"&#xDFFF;", "&#x10FFFF;", "&#x110000;", "&#1114112;", "&#99999999999999999999;", "&#", "&#x", "&#;", "&#x;", "&",
	"&;", "&a", "&zz;", "&#38;", "&#60;", "&#62;", "&#34;", "&#39;", "&#X41;", "&AMP;", "&AMP", "&ampamp;", "&amp;amp;",
	"&#45;", "&#33;", "&#62", "&#45", "&#33",
	// entities whose replacement is longer than their name (the unescaper has to grow
	// its output): alone they exercise the copy-on-expand path
	"&nLt;", "&nGt;", "&nLt;<b>", "x&nGt;</i>", "&NotEqualTilde;<a b=c>",
}

var soupHostile = []string{
	"<", "</", "<!", "<!-", "<!--", "-->", "--!>", "--!", "-", "--", "!", "]]>", "]]", "<![CDATA[", "<![CDATA", "/>", ">",
	"<a", "</a", "<a ", "<a b", "<a b=", "<a b='", "<a b=\"", "<a b=c", "<a/", "</a ", "\x00", "\r\n", "\r", "\n", "\f", "\t",
	"<?", "<?xml version=\"1.0\"?>", "</ ", "</>", "</3>", "<3", "< a>", "<!DOCTYPE", "<!doctype html", "<!DOCTYP", "<!D",
	"<![", "<!>", "<!->", "<!-->", "<!--->", "<!---->", "<!----!>", "<!--<!---->", "<!-- --!> -->", "\xff", "\xc0\x80",
	"\xed\xa0\x80", "\xef\xbb\xbf", "\xe2\x80", "é", "\U0001F600", "<script", "</script", "</SCRIPT", "</title", "</textarea",
	"</style", "</xmp", "<!--<script>", "<!--<script></script>", "</script >", "</script/>", "</scriptx>", "</plaintext>",
	"=", "'", "\"", "/", "&", "#", ";", "[", "]", "?",
}

var soupRawNames = []string{"script", "style", "textarea", "title", "xmp", "iframe", "noembed", "noframes", "noscript", "plaintext", "SCRIPT", "Title", "sCrIpT"}

var soupPadUnits = []string{
	"a", " ", "\x00", "\r", "&amp;", "<", "-", "]", "<div>", "<b>", "<i><b>", "<table><tr><td>", "<svg>", "<math>",
	"<template>", "<select>", "</p>", "<p>", "<li>", "<x>", "<!---->", "<a b=c>", "<a>", "<nobr>", "<font color=r>", "<b><p>", "</b>",
	"<button>", "<ruby><rtc>", "<dd>", "<h1>", "<tbody>", "<caption>", "<svg><foreignObject>", "<math><mi>", "<option>", "<optgroup>",
	"<frameset>", "<applet>", "<a b='", "<script>", "</script>", "<!--", "é",
}

var soupSnippets = []string{
	"<a><table><a>", "<b><p></b>", "<a><p></a>", "<b><i><p></b>x</i>", "<table><tr><td>", "<table>x<tr>y<td>z", "<table><a>",
	"<table><form>", "<table><input type=hidden>", "<table><input>", "<table><caption>", "<table><colgroup><col>",
	"<table><tbody><tr></tbody>", "<table></p>", "<p><table></p>", "<table><plaintext>", "<table><script>", "<table><style>",
	"<table><template>", "<table><select>", "<table><svg>", "<table><math>", "<table><td><svg><desc><td>", "<table> x",
	"<select><option><optgroup>", "<select><select>", "<select><input>", "<select><table>", "<select><script>", "<select><template>",
	"<select><hr>", "<select><button><selectedcontent></button><option>X", "<select></select>", "<table><select><td>",
	"<template><td>", "<template><tr>", "<template><col>", "<template><caption>", "<template><frame>", "<template><body>",
	"<template><html>", "<template><head>", "<template></template>", "</template>", "<template><a><table><a>",
	"<frameset><frame></frameset>", "<frameset><frameset>", "<frameset></frameset><noframes>", "</frameset>", "<body><frameset>",
	"<svg><foreignObject><p>", "<svg><desc><b>", "<svg><title><table>", "<svg><p>", "<svg><font color>", "<svg><font>", "<svg><b>",
	"<svg></p>", "<svg></br>", "<svg><script>", "<svg><style>", "<svg><textarea>", "<svg><title>", "<svg><![CDATA[x]]>", "<svg/>",
	"<svg><input>x</input>", "<svg><br>", "<svg><area>x", "<svg><template>", "<svg><image>", "</svg>", "<svg><svg></svg>",
	"<math><mi><p>", "<math><mo><svg>", "<math><mtext><mglyph>", "<math><mtext><malignmark>", "<math><annotation-xml><svg>",
	"<math><annotation-xml encoding=text/html><p>", "<math><annotation-xml encoding=application/xhtml+xml><b>",
	"<math><annotation-xml encoding=x><p>", "<math><template>", "<math><mi><template>", "<math><table>", "</math>", "<math/>",
	"<math><![CDATA[</math>]]>", "<math><col>x", "<math><link>x</link>", "<math><mn><input>",
	"<p><p>", "</p>", "</br>", "<br/>", "<li><li>", "<dd><dt>", "<h1><h2>", "<form><form>", "</form>", "<form><table></form><form>",
	"<button><button>", "<nobr><nobr>", "<a><a>", "<image>", "<isindex>", "<hr>", "<listing>\n", "<pre>\n", "<pre>\r\n", "<textarea>\n",
	"<body a=b>", "<html c=d>", "<head>", "</head>", "</body>", "</html>", "</body>x", "</html>x", "</html><!--c-->", "<!--c-->",
	"<noscript><p>", "<noscript></noscript>", "<head><noscript><style>", "<head><noscript><!---->", "<head><noscript>x", "<head><noscript><head>",
	"<noscript><noscript>", "<marquee><b></marquee>", "<applet><b></applet>", "<object><b></object>", "<td>", "<tr>", "<th>", "</td>", "</tr>",
	"</table>", "</tbody>", "</caption>", "</select>", "</option>", "</a>", "</b>", "</i>", "</em>", "</font>", "</nobr>", "</div>",
	"</span>", "</li>", "</h1>", "</button>", "</applet>", "</object>", "</marquee>", "</sarcasm>", "</foo>", "</title>", "</textarea>",
	"<title>x</title>", "<textarea>x</textarea>", "<style>x</style>", "<script>x</script>", "<xmp>x</xmp>", "<iframe>x</iframe>",
	"<noembed>x</noembed>", "<noframes>x</noframes>", "<plaintext>", "<!DOCTYPE html>", "<!doctype html public \"-//W3C//DTD HTML 4.01//EN\">",
	"<!DOCTYPE html SYSTEM 'a\"b'>", "<!DOCTYPE html PUBLIC \"a'b\" 'c\"d'>", "<!DOCTYPE a PUBLIC \"x\" \"y'z\">", "<!DOCTYPE a SYSTEM \"'\">",
	"<!DOCTYPE x PUBLIC '\"' \"'\">", "<!DOCTYPE>", "<!DOCTYPE \x00>", "<!DOCTYPE html PUBLIC \"-//W3O//DTD W3 HTML Strict 3.0//EN//\">",
	"<ruby><rb><rtc><rt><rp>", "<details><summary>", "<dialog><p>", "<menu><li>", "<main><p>", "<search><p>", "<menuitem>", "<bgsound>",
	"<base><link><meta>", "<keygen>", "<wbr>", "<param><source><track>", "<embed>", "<area>", "<col>", "<frame>",
	"\x00", " ", "\n", "x", "\r",
}

// soupFlipCase randomly upper-cases ASCII letters of s.
func soupFlipCase(t *rapid.T, s string) string {
	if rapid.IntRange(0, 5).Draw(t, "flipcase") != 0 {
		return s
	}
	mask := rapid.Uint32().Draw(t, "casemask")
	b := []byte(s)
	for i, c := range b {
		if 'a' <= c && c <= 'z' && mask&(1<<(uint(i)%32)) != 0 {
			b[i] = c - 'a' + 'A'
		}
	}
	return string(b)
}

func soupWS(t *rapid.T) string {
	return rapid.SampledFrom([]string{"", " ", " ", "\n", "\t", "\f", "\r", "\r\n", "  "}).Draw(t, "ws")
}

func soupShortText(t *rapid.T) string {
	n := rapid.IntRange(0, 6).Draw(t, "ntext")
	var sb strings.Builder
	for i := 0; i < n; i++ {
		switch rapid.IntRange(0, 3).Draw(t, "tk") {
		case 0:
			sb.WriteString(rapid.SampledFrom(soupEntities).Draw(t, "ent"))
		case 1:
			sb.WriteString(rapid.SampledFrom(soupHostile).Draw(t, "hostile"))
		default:
			sb.WriteByte(rapid.SampledFrom([]byte("abcxyzAZ 09-!>;&\n")).Draw(t, "ch"))
		}
	}
	return sb.String()
}

func soupAttr(t *rapid.T) string {
	k := rapid.SampledFrom(soupAttrKeys).Draw(t, "key")
	var v string
	if rapid.IntRange(0, 2).Draw(t, "valkind") == 0 {
		v = soupShortText(t)
	} else {
		v = rapid.SampledFrom(soupAttrVals).Draw(t, "val")
	}
	switch rapid.IntRange(0, 6).Draw(t, "quoting") {
	case 0:
		return soupWS(t) + k
	case 1:
		return " " + k + soupWS(t) + "=" + soupWS(t) + "\"" + v + "\""
	case 2:
		return " " + k + "='" + v + "'"
	case 3:
		return " " + k + "=" + v
	case 4:
		return "/" + k + "=" + v + "/"
	case 5:
		return k + "=\"" + v + "\"" // no separating space
	default:
		return " " + k + "=" + soupWS(t)
	}
}

func soupStartTag(t *rapid.T) string {
	var sb strings.Builder
	sb.WriteByte('<')
	sb.WriteString(soupFlipCase(t, rapid.SampledFrom(soupTagNames).Draw(t, "tag")))
	na := rapid.SampledFrom([]int{0, 0, 0, 0, 0, 1, 1, 1, 2, 2, 3, 4}).Draw(t, "nattr")
	for i := 0; i < na; i++ {
		sb.WriteString(soupAttr(t))
	}
	sb.WriteString(rapid.SampledFrom([]string{">", ">", ">", ">", ">", "/>", " />", " >", "/ >", ""}).Draw(t, "close"))
	return sb.String()
}

func soupEndTag(t *rapid.T) string {
	name := soupFlipCase(t, rapid.SampledFrom(soupTagNames).Draw(t, "etag"))
	return "</" + name + rapid.SampledFrom([]string{">", ">", ">", ">", " >", " a=b>", "/>", "\n>", ""}).Draw(t, "eclose")
}

func soupRawBlock(t *rapid.T) string {
	name := rapid.SampledFrom(soupRawNames).Draw(t, "rawname")
	var sb strings.Builder
	sb.WriteString("<" + name)
	if rapid.IntRange(0, 4).Draw(t, "rawattr") == 0 {
		sb.WriteString(soupAttr(t))
	}
	sb.WriteString(">")
	n := rapid.IntRange(0, 6).Draw(t, "nraw")
	for i := 0; i < n; i++ {
		switch rapid.IntRange(0, 5).Draw(t, "rk") {
		case 0:
			sb.WriteString("</" + name[:rapid.IntRange(0, len(name)).Draw(t, "cut")])
		case 1:
			sb.WriteString("</" + soupFlipCase(t, strings.ToLower(name)) + rapid.SampledFrom([]string{"x", "-", " ", "/", "\n", "", ">"}).Draw(t, "after"))
		case 2:
			sb.WriteString(rapid.SampledFrom([]string{"<!--", "-->", "<script>", "<script ", "</script>", "<!--<script>", "--", "-", "<", "<!", "<!-", "--!>", "<scriptx", "<SCRIPT/"}).Draw(t, "esc"))
		default:
			sb.WriteString(soupShortText(t))
		}
	}
	if rapid.IntRange(0, 3).Draw(t, "rawclose") != 0 {
		sb.WriteString("</" + soupFlipCase(t, strings.ToLower(name)) + soupWS(t) + ">")
	}
	return sb.String()
}

func soupComment(t *rapid.T) string {
	switch rapid.IntRange(0, 5).Draw(t, "ck") {
	case 0:
		return "<!--" + soupShortText(t) + rapid.SampledFrom([]string{"-->", "-->", "--!>", "--", "-", "", "->", "--->"}).Draw(t, "cend")
	case 1:
		return "<!" + soupShortText(t) + ">"
	case 2:
		return "<?" + soupShortText(t) + ">"
	case 3:
		return "</" + rapid.SampledFrom([]string{" ", "3", "!", "-", "\x00", "=", "é"}).Draw(t, "bogus") + soupShortText(t) + ">"
	case 4:
		return "<![CDATA[" + soupShortText(t) + rapid.SampledFrom([]string{"]]>", "]]>", "]]", "]>", "", "]]]>", "]] >"}).Draw(t, "cdend")
	default:
		return "<!" + soupFlipCase(t, "doctype") + soupWS(t) + soupShortText(t) +
			rapid.SampledFrom([]string{"", " PUBLIC \"a\"", " SYSTEM 'b'", " public 'a\"' \"b'\"", " PUBLIC \"-//W3C//DTD HTML 4.0//EN\""}).Draw(t, "ids") +
			rapid.SampledFrom([]string{">", ">", ""}).Draw(t, "dend")
	}
}

func soupPad(t *rapid.T) string {
	unit := rapid.SampledFrom(soupPadUnits).Draw(t, "unit")
	max := 9000
	if len(unit) > 2 {
		max = 620
	}
	n := vp.BiasedInt(1, max, 3, 64, 255, 256, 511, 512, 513, 2047, 2048, 4095, 4096, 4097, 8192).Draw(t, "reps")
	return strings.Repeat(unit, n)
}

func soupPiece(prof int) *rapid.Generator[string] {
	return rapid.Custom(func(t *rapid.T) string {
		k := rapid.IntRange(0, 99).Draw(t, "kind")
		if prof == soupProfTree {
			switch {
			case k < 30:
				return rapid.SampledFrom(soupSnippets).Draw(t, "snippet")
			case k < 55:
				return soupStartTag(t)
			case k < 70:
				return soupEndTag(t)
			case k < 78:
				return soupShortText(t)
			case k < 84:
				return soupRawBlock(t)
			case k < 90:
				return soupComment(t)
			case k < 96:
				return rapid.SampledFrom(soupHostile).Draw(t, "hostile")
			default:
				return soupPad(t)
			}
		}
		switch {
		case k < 18:
			return soupShortText(t)
		case k < 38:
			return soupStartTag(t)
		case k < 48:
			return soupEndTag(t)
		case k < 63:
			return soupComment(t)
		case k < 75:
			return soupRawBlock(t)
		case k < 90:
			return rapid.SampledFrom(soupHostile).Draw(t, "hostile")
		case k < 96:
			return rapid.SampledFrom(soupSnippets).Draw(t, "snippet")
		default:
			return soupPad(t)
		}
	})
}

// soupGen draws an input: grammar-based soup (optionally truncated at a random
// byte), bytes over a markup-dense alphabet, or arbitrary bytes.
func soupGen(t *rapid.T, prof int) []byte { return soupGenMode(t, prof, false) }

// soupGenMode with markupOnly skips the two raw-bytes modes.
func soupGenMode(t *rapid.T, prof int, markupOnly bool) []byte {
	mode := rapid.IntRange(0, 9).Draw(t, "mode")
	if markupOnly && mode < 2 {
		mode = 3
	}
	switch {
	case mode == 0:
		return vp.Bytes(0, 48).Draw(t, "bytes")
	case mode == 1:
		return rapid.SliceOfN(rapid.SampledFrom([]byte("<>/!-=\"' a\x00&;#[]?sSpP\r\nx\xff")), 0, 40).Draw(t, "dense")
	}
	maxPieces := 24
	if prof == soupProfTree {
		maxPieces = 40
	}
	pieces := rapid.SliceOfN(soupPiece(prof), 1, maxPieces).Draw(t, "pieces")
	s := strings.Join(pieces, "")
	if mode == 2 && len(s) > 0 {
		s = s[:rapid.IntRange(0, len(s)).Draw(t, "trunc")]
	}
	return []byte(s)
}

var (
	soupActiveOnce sync.Once
	soupActive     map[string]bool
)

// soupKnownActive reports whether any of the comma-separated keys is an open entry
// of KNOWN_FINDINGS.json (path in VP_KNOWN). Native fuzz targets use it to skip
// inputs that only re-find a recorded defect, as vp.Run does for rapid cases.
func soupKnownActive(keys string) bool {
	if keys == "" {
		return false
	}
	soupActiveOnce.Do(func() {
		soupActive = map[string]bool{}
		b, err := os.ReadFile(os.Getenv("VP_KNOWN"))
		if err != nil {
			return
		}
		var kf struct {
			Findings []struct{ Key, Status string }
		}
		if json.Unmarshal(b, &kf) != nil {
			return
		}
		for _, f := range kf.Findings {
			if f.Status == "open" {
				soupActive[f.Key] = true
			}
		}
	})
	for _, k := range strings.Split(keys, ",") {
		if soupActive[k] {
			return true
		}
	}
	return false
}

// soupQ quotes b for an error message, abbreviating long inputs.
func soupQ(b []byte) string {
	if len(b) <= 400 {
		return fmt.Sprintf("%q", b)
	}
	return fmt.Sprintf("%q...(%d bytes omitted)...%q", b[:180], len(b)-360, b[len(b)-180:])
}

// soupBalanced reports whether the tag soup is "well nested" by a naive
// start/end-tag stack discipline (used only for the non-triviality rules).
func soupBalanced(toks []Token) bool {
	var st []string
	for _, tk := range toks {
		switch tk.Type {
		case StartTagToken:
			if !voidElements[tk.Data] {
				st = append(st, tk.Data)
			}
		case EndTagToken:
			if len(st) == 0 || st[len(st)-1] != tk.Data {
				return false
			}
			st = st[:len(st)-1]
		}
	}
	return len(st) == 0
}

// soupChunkReader delivers data in the given chunk sizes (cycled). A size of 0
// yields one (0, nil) read. With eofWithData the last bytes are returned
// together with io.EOF.
type soupChunkReader struct {
	data        []byte
	sizes       []int
	i           int
	eofWithData bool
	zeros       int
	// endErr, when set, is what the reader ends with instead of io.EOF (a source that
	// fails: with eofWithData it arrives together with the last bytes)
	endErr error
}

func (r *soupChunkReader) Read(p []byte) (int, error) {
	end := error(io.EOF)
	if r.endErr != nil {
		end = r.endErr
	}
	if len(r.data) == 0 {
		return 0, end
	}
	n := len(p)
	if len(r.sizes) > 0 {
		sz := r.sizes[r.i%len(r.sizes)]
		r.i++
		if sz == 0 && r.zeros < 50 {
			r.zeros++
			return 0, nil
		}
		if sz > 0 && sz < n {
			n = sz
		}
	}
	r.zeros = 0
	if n > len(r.data) {
		n = len(r.data)
	}
	copy(p, r.data[:n])
	r.data = r.data[n:]
	if len(r.data) == 0 && r.eofWithData {
		return n, end
	}
	return n, nil
}

func soupChunksGen(t *rapid.T) []int {
	switch rapid.IntRange(0, 3).Draw(t, "chunkmode") {
	case 0:
		return nil
	case 1:
		return []int{1}
	default:
		return rapid.SliceOfN(vp.BiasedInt(0, 5000, 1, 2, 7, 4096), 1, 6).Draw(t, "chunks")
	}
}
