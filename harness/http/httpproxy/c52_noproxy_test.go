package httpproxy_test

import (
	"fmt"
	"net/netip"
	"net/url"
	"strconv"
	"strings"
	"testing"

	"golang.org/x/net/http/httpproxy"
	"golang.org/x/net/idna"
	"pgregory.net/rapid"
	"verif/vp"
)

// C52: ProxyFunc returns HTTPS_PROXY for https URLs and HTTP_PROXY for http URLs
// (refusing the latter under CGI) and no proxy exactly when the host is localhost, a
// loopback IP, or matches a NO_PROXY entry ('*', IP, CIDR, domain = itself and its
// subdomains, '.domain' / '*.domain' = subdomains only, optional port).
//
// The reference matcher is written from the doc comments of Config / ProxyFunc /
// FromEnvironment and the statement. What they leave open is not asserted:
//   - IPv4-mapped IPv6 literals against IPv4 rules (and the converse), a trailing dot
//     of the request host: evaluated under both readings, asserted only if they agree;
//   - entries outside the documented grammar ("undefined"): the case is decided only
//     if another, well-formed entry matches;
//   - spelling variants of "localhost" ("LOCALHOST", "localhost."), schemes other
//     than http/https, unparsable proxy values, CGI when the host is exempt anyway.
//
// Domain names compare case-insensitively; IDN names compare by their IDNA (UTS 46
// lookup) A-label form, computed with golang.org/x/net/idna on the text as written.

type c52Case struct {
	HTTPProxy  string `json:"http_proxy"`
	HTTPSProxy string `json:"https_proxy"`
	NoProxy    string `json:"no_proxy"`
	CGI        bool   `json:"cgi"`
	URL        string `json:"url"`
}

// ---- reference: NO_PROXY entries ----

type c52Rule struct {
	kind    string // "all", "ip", "cidr", "domain", "undefined"
	addr    netip.Addr
	bits    int
	name    string // lower-case A-label form, no leading dot
	subOnly bool
	port    string // "" = any
	text    string
}

func c52IsASCII(s string) bool {
	for i := 0; i < len(s); i++ {
		if s[i] >= 0x80 {
			return false
		}
	}
	return true
}

// c52NormName maps a name as written to its comparison form.
func c52NormName(s string) (string, bool) {
	if c52IsASCII(s) {
		return strings.ToLower(s), true
	}
	v, err := idna.Lookup.ToASCII(s)
	if err != nil {
		return "", false
	}
	return strings.ToLower(v), true
}

func c52ValidPort(p string) bool {
	if p == "" || len(p) > 5 || (len(p) > 1 && p[0] == '0') {
		return false
	}
	n, err := strconv.Atoi(p)
	return err == nil && n >= 0 && n <= 65535 && !strings.ContainsAny(p, "+-")
}

func c52ValidName(s string) bool {
	if s == "" {
		return false
	}
	for _, l := range strings.Split(s, ".") {
		if l == "" {
			return false
		}
		for i := 0; i < len(l); i++ {
			ch := l[i]
			switch {
			case ch >= 0x80, 'a' <= ch && ch <= 'z', 'A' <= ch && ch <= 'Z', '0' <= ch && ch <= '9', ch == '-', ch == '_':
			default:
				return false
			}
		}
	}
	return true
}

func c52ParseIP(s string) (netip.Addr, bool) {
	a, err := netip.ParseAddr(s)
	if err != nil || a.Zone() != "" {
		return netip.Addr{}, false
	}
	return a, true
}

func c52ParseEntry(e string) c52Rule {
	undef := c52Rule{kind: "undefined", text: e}
	if e == "*" {
		return c52Rule{kind: "all", text: e}
	}
	if strings.Contains(e, "/") {
		p, err := netip.ParsePrefix(e)
		if err != nil || p.Addr().Zone() != "" {
			return undef
		}
		return c52Rule{kind: "cidr", addr: p.Addr(), bits: p.Bits(), text: e}
	}
	if strings.HasPrefix(e, "[") {
		i := strings.Index(e, "]:")
		if i < 0 {
			return undef
		}
		a, ok := c52ParseIP(e[1:i])
		if !ok || !a.Is6() || !c52ValidPort(e[i+2:]) {
			return undef
		}
		return c52Rule{kind: "ip", addr: a, port: e[i+2:], text: e}
	}
	if a, ok := c52ParseIP(e); ok {
		return c52Rule{kind: "ip", addr: a, text: e}
	}
	host, port := e, ""
	switch strings.Count(e, ":") {
	case 0:
	case 1:
		i := strings.IndexByte(e, ':')
		host, port = e[:i], e[i+1:]
		if !c52ValidPort(port) {
			return undef
		}
	default:
		return undef
	}
	if a, ok := c52ParseIP(host); ok {
		return c52Rule{kind: "ip", addr: a, port: port, text: e}
	}
	subOnly := false
	switch {
	case strings.HasPrefix(host, "*."):
		subOnly, host = true, host[2:]
	case strings.HasPrefix(host, "."):
		subOnly, host = true, host[1:]
	}
	if !c52ValidName(host) {
		return undef
	}
	n, ok := c52NormName(host)
	if !ok {
		return undef
	}
	return c52Rule{kind: "domain", name: n, subOnly: subOnly, port: port, text: e}
}

func c52ParseNoProxy(s string) []c52Rule {
	var out []c52Rule
	for _, e := range strings.Split(s, ",") {
		e = strings.Trim(e, " \t")
		if e == "" {
			continue
		}
		out = append(out, c52ParseEntry(e))
	}
	return out
}

func c52PrefixContains(pa netip.Addr, bits int, ip netip.Addr, unmap bool) bool {
	if unmap {
		if pa.Is4In6() && bits >= 96 {
			pa, bits = pa.Unmap(), bits-96
		}
		ip = ip.Unmap()
	}
	if pa.Is4() != ip.Is4() {
		return false
	}
	a, b := pa.AsSlice(), ip.AsSlice()
	for i := 0; i < bits; i++ {
		m := byte(0x80) >> (i % 8)
		if a[i/8]&m != b[i/8]&m {
			return false
		}
	}
	return true
}

const (
	c52Proxy = iota
	c52Bypass
	c52Unknown
)

// c52Exempt decides, under one reading, whether the request host is exempt.
func c52Exempt(rules []c52Rule, host, port string, unmap, stripDot bool) (int, string) {
	undefined := false
	portOK := func(r c52Rule) bool { return r.port == "" || r.port == port }
	if ip, ok := c52ParseIP(host); ok {
		x := ip
		if unmap {
			x = x.Unmap()
		}
		if x.IsLoopback() {
			return c52Bypass, "loopback"
		}
		for _, r := range rules {
			switch r.kind {
			case "all":
				return c52Bypass, "star"
			case "ip":
				a := r.addr
				if unmap {
					a = a.Unmap()
				}
				if a == x && portOK(r) {
					if r.port != "" {
						return c52Bypass, "ip+port"
					}
					return c52Bypass, "ip"
				}
			case "cidr":
				if c52PrefixContains(r.addr, r.bits, ip, unmap) {
					return c52Bypass, "cidr"
				}
			case "domain":
				// A domain entry against an IP literal: not a name, no match - but if
				// the text happens to be a suffix the documentation is not explicit.
				if strings.HasSuffix(host, "."+r.name) || host == r.name {
					undefined = true
				}
			case "undefined":
				undefined = true
			}
		}
		if undefined {
			return c52Unknown, ""
		}
		return c52Proxy, ""
	}
	if _, err := netip.ParseAddr(host); err == nil {
		return c52Unknown, "" // zoned literal
	}
	if host == "localhost" {
		return c52Bypass, "localhost"
	}
	h := host
	if stripDot {
		h = strings.TrimSuffix(h, ".")
	}
	h, ok := c52NormName(h)
	if !ok {
		undefined = true
	}
	if strings.ToLower(strings.TrimSuffix(host, ".")) == "localhost" {
		undefined = true // spelling variant of localhost
	}
	for _, r := range rules {
		switch r.kind {
		case "all":
			return c52Bypass, "star"
		case "domain":
			if !ok {
				continue
			}
			eq := h == r.name && !r.subOnly
			sub := strings.HasSuffix(h, "."+r.name)
			if (eq || sub) && portOK(r) {
				w := "domain-sub"
				if eq {
					w = "domain-eq"
				}
				if r.port != "" {
					w += "+port"
				}
				return c52Bypass, w
			}
		case "undefined":
			undefined = true
		}
	}
	if undefined {
		return c52Unknown, ""
	}
	return c52Proxy, ""
}

// ---- reference: proxy values ----

// c52ParseProxyValue: "either a complete URL or a host[:port], in which case the
// http scheme is assumed". ok=false: not one of the two documented forms.
func c52ParseProxyValue(s string) (*url.URL, bool) {
	if strings.Contains(s, "://") {
		u, err := url.Parse(s)
		if err != nil || u.Scheme == "" || u.Host == "" {
			return nil, false
		}
		return u, true
	}
	if strings.ContainsAny(s, "/?#@ %") {
		return nil, false
	}
	u, err := url.Parse("http://" + s)
	if err != nil || u.Host == "" || u.Hostname() == "" {
		return nil, false
	}
	return u, true
}

// ---- known finding ----

// c52LowerBeforeIDNA: an entry whose name changes meaning when it is lower-cased with
// Unicode simple case mapping before IDNA mapping (e.g. U+0130, U+1E9E).
func c52LowerBeforeIDNA(noProxy string) bool {
	for _, e := range strings.Split(noProxy, ",") {
		e = strings.Trim(e, " \t")
		if c52IsASCII(e) {
			continue
		}
		if i := strings.IndexByte(e, ':'); i >= 0 {
			e = e[:i]
		}
		e = strings.TrimPrefix(strings.TrimPrefix(e, "*"), ".")
		a, err1 := idna.Lookup.ToASCII(e)
		b, err2 := idna.Lookup.ToASCII(strings.ToLower(e))
		if (err1 == nil) != (err2 == nil) || (err1 == nil && a != b) {
			return true
		}
	}
	return false
}

func c52Known(c c52Case) string {
	if c52LowerBeforeIDNA(c.NoProxy) {
		return "c52-noproxy-lowercased-before-idna"
	}
	return ""
}

// ---- property ----

func c52Prop(c c52Case, r *vp.Rec) error {
	u, err := url.Parse(c.URL)
	if err != nil || u.Hostname() == "" {
		r.Discard("request URL does not parse")
		return nil
	}
	cfg := &httpproxy.Config{HTTPProxy: c.HTTPProxy, HTTPSProxy: c.HTTPSProxy, NoProxy: c.NoProxy, CGI: c.CGI}
	fn := cfg.ProxyFunc()
	got, gerr := fn(u)
	// "Changing the contents of cfg will not affect proxy functions created earlier"
	// and the function is pure: a second call must agree.
	cfg.NoProxy, cfg.HTTPProxy, cfg.HTTPSProxy = "*", "", ""
	got2, gerr2 := fn(u)
	if (got == nil) != (got2 == nil) || (gerr == nil) != (gerr2 == nil) || (got != nil && got.String() != got2.String()) {
		return fmt.Errorf("ProxyFunc result changed between two calls: (%v,%v) then (%v,%v)", got, gerr, got2, gerr2)
	}
	if got != nil && gerr != nil {
		return fmt.Errorf("both a proxy (%v) and an error (%v) returned", got, gerr)
	}
	res := "nil"
	if gerr != nil {
		res = "error"
	} else if got != nil {
		res = "proxy"
	}

	var pv string
	switch u.Scheme {
	case "https":
		pv = c.HTTPSProxy
		r.Class("scheme:https")
	case "http":
		pv = c.HTTPProxy
		r.Class("scheme:http")
	default:
		r.Class("scheme:other:not-asserted")
		return nil
	}
	if pv == "" {
		r.Class("no-proxy-configured")
		if res != "nil" {
			return fmt.Errorf("no proxy configured for scheme %s but got %s (%v, %v)", u.Scheme, res, got, gerr)
		}
		return nil
	}
	want, ok := c52ParseProxyValue(pv)
	if !ok {
		r.Class("proxy-value-undocumented-form:not-asserted")
		return nil
	}
	cgi := c.CGI && u.Scheme == "http"

	host, port := u.Hostname(), u.Port()
	if port == "" {
		port = map[string]string{"http": "80", "https": "443"}[u.Scheme]
	} else if !c52ValidPort(port) {
		r.Class("request-port-noncanonical:not-asserted")
		return nil
	}
	rules := c52ParseNoProxy(c.NoProxy)
	verdict, why := -1, ""
	for m := 0; m < 4; m++ {
		v, w := c52Exempt(rules, host, port, m&1 != 0, m&2 != 0)
		if v == c52Bypass {
			why = w
		}
		switch {
		case verdict == -1:
			verdict = v
		case verdict != v:
			verdict = c52Unknown
		}
	}
	c52Classify(r, rules, host, port)
	if !c52IsASCII(host) || !c52IsASCII(c.NoProxy) {
		r.Class("idn")
	}

	checkProxy := func() error {
		if got.String() != want.String() {
			return fmt.Errorf("config %+v url %q: returned proxy %q, configured %q", c, c.URL, got, want)
		}
		return nil
	}
	switch verdict {
	case c52Unknown:
		r.Class("exempt:ambiguous:not-asserted")
		if res == "proxy" {
			return checkProxy()
		}
		return nil
	case c52Bypass:
		r.Class("exempt:" + why)
		if cgi {
			r.Class("cgi+exempt:error-or-nil")
			if res == "proxy" {
				return fmt.Errorf("config %+v url %q: proxy %v returned for an exempt host under CGI", c, c.URL, got)
			}
			return nil
		}
		if res != "nil" {
			return fmt.Errorf("config %+v url %q: host is exempt (%s) but got %s (%v, %v)", c, c.URL, why, res, got, gerr)
		}
	case c52Proxy:
		if cgi {
			r.Class("cgi:refused")
			if res != "error" {
				return fmt.Errorf("config %+v url %q: HTTP_PROXY applies under CGI, want an error, got %s (%v)", c, c.URL, res, got)
			}
			return nil
		}
		r.Class("proxied")
		if res != "proxy" {
			return fmt.Errorf("config %+v url %q: host is not exempt, want proxy %q, got %s (%v)", c, c.URL, want, res, gerr)
		}
		return checkProxy()
	}
	return nil
}

// c52Classify records near-miss classes and non-triviality: NO_PROXY non-empty and
// the host shares a textual suffix with a domain entry (or is its parent), or agrees
// with an IP/CIDR entry on all but the last two prefix bits.
func c52Classify(r *vp.Rec, rules []c52Rule, host, port string) {
	related := false
	if ip, ok := c52ParseIP(host); ok {
		ip = ip.Unmap()
		for _, e := range rules {
			if e.kind != "ip" && e.kind != "cidr" {
				continue
			}
			a, bits := e.addr, e.bits
			if e.kind == "ip" {
				bits = a.BitLen()
			}
			if a.Is4In6() && bits >= 96 {
				a, bits = a.Unmap(), bits-96
			}
			if a.Is4() != ip.Is4() {
				continue
			}
			n := max(bits-2, 0)
			if c52PrefixContains(a, n, ip, false) {
				related = true
				if e.kind == "ip" && a == ip && e.port != "" && e.port != port {
					r.Class("near:ip-port-mismatch")
				}
				if !c52PrefixContains(a, bits, ip, false) {
					r.Class("near:just-outside-prefix")
				}
			}
		}
	} else {
		h, ok := c52NormName(strings.TrimSuffix(host, "."))
		if ok {
			for _, e := range rules {
				if e.kind != "domain" {
					continue
				}
				if strings.HasSuffix(h, e.name) || strings.HasSuffix(e.name, h) {
					related = true
				}
				eq, sub := h == e.name, strings.HasSuffix(h, "."+e.name)
				switch {
				case eq && e.subOnly:
					r.Class("near:apex-of-subdomain-only-entry")
				case (eq || sub) && e.port != "" && e.port != port:
					r.Class("near:domain-port-mismatch")
				case !eq && !sub && strings.HasSuffix(h, e.name):
					r.Class("near:suffix-but-not-subdomain")
				}
			}
		}
	}
	if len(rules) > 0 && related {
		r.NonTrivial()
	}
}

// ---- generator ----

type c52GenEntry struct {
	kind    int // 0 domain, 1 ip, 2 cidr, 3 star, 4 junk
	name    string
	subForm int // 0 plain, 1 ".", 2 "*."
	addr    netip.Addr
	bits    int
	port    string
	text    string
}

var c52Labels = []string{"example", "com", "org", "foo", "bar", "a", "b", "co", "uk", "localhost", "test", "x-y", "a_b", "3", "4", "Example", "COM"}
var c52IDNLabels = []string{"bücher", "BÜCHER", "xn--bcher-kva", "münchen", "例え", "Σ", "ü", "faß"}
var c52OddIDNLabels = []string{"İ", "ẞ", "İstanbul"}

func c52GenLabel(t *rapid.T) string {
	switch rapid.IntRange(0, 11).Draw(t, "labelKind") {
	case 0, 1:
		return rapid.SampledFrom(c52IDNLabels).Draw(t, "idnLabel")
	case 2:
		if rapid.IntRange(0, 15).Draw(t, "odd") == 0 {
			return rapid.SampledFrom(c52OddIDNLabels).Draw(t, "oddLabel")
		}
	}
	return rapid.SampledFrom(c52Labels).Draw(t, "label")
}

func c52GenName(t *rapid.T) string {
	return strings.Join(rapid.SliceOfN(rapid.Custom(c52GenLabel), 1, 4).Draw(t, "labels"), ".")
}

func c52GenV4(t *rapid.T) netip.Addr {
	base := rapid.SampledFrom([][4]byte{{10, 0, 0, 0}, {10, 1, 2, 3}, {127, 0, 0, 1}, {127, 255, 0, 9}, {126, 255, 255, 255}, {128, 0, 0, 0}, {192, 168, 1, 128}, {1, 2, 3, 4}, {255, 255, 255, 255}, {0, 0, 0, 0}}).Draw(t, "v4base")
	if rapid.Bool().Draw(t, "v4rand") {
		base[rapid.IntRange(0, 3).Draw(t, "v4i")] = rapid.Byte().Draw(t, "v4b")
	}
	return netip.AddrFrom4(base)
}

func c52GenV6(t *rapid.T) netip.Addr {
	var b [16]byte
	switch rapid.IntRange(0, 5).Draw(t, "v6kind") {
	case 0:
		b[15] = 1 // ::1
	case 1:
		b[15] = rapid.SampledFrom([]byte{0, 2, 3}).Draw(t, "v6near1")
	case 2:
		copy(b[:], []byte{0x20, 0x01, 0x0d, 0xb8})
		b[15] = rapid.Byte().Draw(t, "v6last")
	case 3:
		copy(b[:], []byte{0xfe, 0x80})
		b[8] = rapid.Byte().Draw(t, "v6mid")
		b[15] = rapid.Byte().Draw(t, "v6last")
	case 4: // IPv4-mapped
		b[10], b[11] = 0xff, 0xff
		v4 := c52GenV4(t).As4()
		copy(b[12:], v4[:])
	default:
		copy(b[:], vp.Bytes(16, 16).Draw(t, "v6bytes"))
	}
	return netip.AddrFrom16(b)
}

func c52GenIP(t *rapid.T) netip.Addr {
	if rapid.IntRange(0, 2).Draw(t, "fam") > 0 {
		return c52GenV4(t)
	}
	return c52GenV6(t)
}

func c52GenPort(t *rapid.T) string {
	return rapid.SampledFrom([]string{"80", "443", "8080", "81", "1", "65535", "8443"}).Draw(t, "port")
}

func c52FlipBit(a netip.Addr, bit int) netip.Addr {
	b := a.AsSlice()
	if bit < 0 || bit >= len(b)*8 {
		return a
	}
	b[bit/8] ^= 0x80 >> (bit % 8)
	x, _ := netip.AddrFromSlice(b)
	return x
}

func c52SwapCase(s string) string {
	b := []byte(s)
	for i, ch := range b {
		switch {
		case 'a' <= ch && ch <= 'z':
			b[i] = ch - 32
		case 'A' <= ch && ch <= 'Z':
			b[i] = ch + 32
		}
	}
	return string(b)
}

func c52GenEntryG(t *rapid.T) c52GenEntry {
	e := c52GenEntry{}
	withPort := rapid.IntRange(0, 2).Draw(t, "withPort") == 0
	switch k := rapid.IntRange(0, 19).Draw(t, "ekind"); {
	case k < 9:
		e.kind = 0
		e.name = c52GenName(t)
		e.subForm = rapid.IntRange(0, 2).Draw(t, "subForm")
		e.text = []string{"", ".", "*."}[e.subForm] + e.name
		if withPort {
			e.port = c52GenPort(t)
			e.text += ":" + e.port
		}
	case k < 13:
		e.kind = 1
		e.addr = c52GenIP(t)
		e.text = e.addr.String()
		if withPort {
			e.port = c52GenPort(t)
			if e.addr.Is6() {
				e.text = "[" + e.text + "]"
			}
			e.text += ":" + e.port
		}
	case k < 18:
		e.kind = 2
		e.addr = c52GenIP(t)
		e.bits = vp.BiasedInt(0, e.addr.BitLen(), 0, 8, 24, 25, 31, 32, 64, 96, 104, 120, 128).Draw(t, "bits")
		e.text = fmt.Sprintf("%s/%d", e.addr, e.bits)
	case k < 19:
		e.kind = 4
		e.text = rapid.SampledFrom([]string{"", " ", "1.2.3.4/33", ":80", "[::1]", "*:80", "*example.com", "example.com.", "a..b", "1.2.3.0/24:80", "2001:db8::1:80", "foo/bar"}).Draw(t, "junk")
	default:
		e.kind = 3
		e.text = "*"
	}
	switch rapid.IntRange(0, 11).Draw(t, "decor") {
	case 0:
		e.text = " " + e.text
	case 1:
		e.text += " "
	case 2:
		e.text = c52SwapCase(e.text)
	}
	return e
}

// c52GenHost derives the request host (URL form, brackets included) and possibly a
// port from the entries, or draws special/unrelated hosts.
func c52GenHost(t *rapid.T, es []c52GenEntry) (string, string) {
	bracket := func(a netip.Addr) string {
		s := a.String()
		if a.Is6() {
			if rapid.IntRange(0, 5).Draw(t, "expand6") == 0 {
				s = a.StringExpanded()
			}
			return "[" + s + "]"
		}
		return s
	}
	var usable []c52GenEntry
	for _, e := range es {
		if e.kind <= 2 {
			usable = append(usable, e)
		}
	}
	k := rapid.IntRange(0, 9).Draw(t, "hostKind")
	if len(usable) == 0 && k >= 3 {
		k = rapid.IntRange(0, 2).Draw(t, "hostKind2")
	}
	switch k {
	case 0:
		return rapid.SampledFrom([]string{"localhost", "localhost", "127.0.0.1", "127.1.2.3", "[::1]", "[0:0:0:0:0:0:0:1]", "LOCALHOST", "localhost.", "foo.localhost", "localhostx", "[::ffff:127.0.0.1]", "128.0.0.1", "[::2]"}).Draw(t, "special"), ""
	case 1:
		return bracket(c52GenIP(t)), ""
	case 2:
		return c52GenName(t), ""
	}
	e := rapid.SampledFrom(usable).Draw(t, "fromEntry")
	port := ""
	if e.port != "" && rapid.IntRange(0, 1).Draw(t, "useEntryPort") > 0 {
		port = e.port
	}
	if e.kind == 0 {
		n := e.name
		switch rapid.IntRange(0, 11).Draw(t, "namerel") {
		case 0, 1, 2:
			return n, port
		case 3, 4:
			return c52GenName(t) + "." + n, port
		case 5, 11:
			return rapid.SampledFrom([]string{"not", "x", "a-"}).Draw(t, "pfx") + n, port
		case 6:
			if i := strings.IndexByte(n, '.'); i >= 0 {
				return n[i+1:], port
			}
			return n, port
		case 7:
			return c52SwapCase(n), port
		case 8:
			return n + ".", port
		case 9: // other IDNA form of the same name
			if c52IsASCII(n) {
				if v, err := idna.Lookup.ToUnicode(n); err == nil {
					return v, port
				}
			} else if v, err := idna.Lookup.ToASCII(n); err == nil {
				return v, port
			}
			return n, port
		case 10:
			return n + rapid.SampledFrom([]string{"x", ".com", "-"}).Draw(t, "sfx"), port
		}
		return n, port
	}
	bits := e.bits
	if e.kind == 1 {
		bits = e.addr.BitLen()
	}
	a := e.addr
	switch rapid.IntRange(0, 5).Draw(t, "iprel") {
	case 0:
	case 1:
		a = c52FlipBit(a, bits-1)
	case 2:
		a = c52FlipBit(a, bits)
	case 3:
		for i := bits; i < a.BitLen(); i++ {
			if rapid.Bool().Draw(t, "hb") {
				a = c52FlipBit(a, i)
			}
		}
	case 4:
		if bits > 0 {
			a = c52FlipBit(a, rapid.IntRange(0, bits-1).Draw(t, "fb"))
		}
	case 5:
		if a.Is4() {
			a = netip.AddrFrom16(a.As16())
		} else if a.Is4In6() {
			a = a.Unmap()
		}
	}
	return bracket(a), port
}

// c52Pct draws 0..99 close to uniformly (rapid's integer generators favour small
// values, which is unwanted for weighted choices).
func c52Pct(t *rapid.T, label string) int {
	b := rapid.SliceOfN(rapid.Byte(), 2, 2).Draw(t, label)
	return (int(b[0])<<8 | int(b[1])) % 100
}

func c52GenProxyValue(t *rapid.T, label string) string {
	switch k := c52Pct(t, label); {
	case k < 8:
		return ""
	case k < 14:
		return rapid.SampledFrom([]string{"http://[::1", "://bad", "http://a b", "%zz", ":", "http://", "/path", "http:proxy"}).Draw(t, label+"Bad")
	case k < 40:
		return rapid.SampledFrom([]string{"proxy.example:3128", "10.0.0.1:3128", "proxy.example", "[::1]:8080", "localhost:3128", "PROXY:1"}).Draw(t, label+"HostPort")
	default:
		s := rapid.SampledFrom([]string{"http", "https", "socks5", "HTTP"}).Draw(t, label+"Scheme") + "://"
		if rapid.IntRange(0, 3).Draw(t, label+"User") == 0 {
			s += "user:p%40ss@"
		}
		s += rapid.SampledFrom([]string{"proxy.example", "127.0.0.1", "[2001:db8::1]", "secure.proxy", "bücher.example"}).Draw(t, label+"Host")
		if rapid.Bool().Draw(t, label+"HasPort") {
			s += ":" + c52GenPort(t)
		}
		if rapid.IntRange(0, 5).Draw(t, label+"Path") == 0 {
			s += "/path?x=1"
		}
		return s
	}
}

func c52Gen(t *rapid.T) c52Case {
	es := rapid.SliceOfN(rapid.Custom(c52GenEntryG), 0, 6).Draw(t, "entries")
	var texts []string
	for _, e := range es {
		texts = append(texts, e.text)
	}
	c := c52Case{
		HTTPProxy:  c52GenProxyValue(t, "httpProxy"),
		HTTPSProxy: c52GenProxyValue(t, "httpsProxy"),
		NoProxy:    strings.Join(texts, ","),
		CGI:        rapid.IntRange(0, 5).Draw(t, "cgi") == 0,
	}
	host, port := c52GenHost(t, es)
	scheme := "http"
	switch k := c52Pct(t, "scheme"); {
	case k < 45:
	case k < 88:
		scheme = "https"
	case k < 92:
		scheme = "HTTP"
	default:
		scheme = rapid.SampledFrom([]string{"ftp", "ws", ""}).Draw(t, "otherScheme")
	}
	if port == "" {
		switch rapid.IntRange(0, 5).Draw(t, "urlPort") {
		case 0:
			port = map[string]string{"http": "80", "HTTP": "80", "https": "443"}[scheme]
		case 1:
			port = c52GenPort(t)
		}
	}
	s := "//" + host
	if scheme != "" {
		s = scheme + ":" + s
	}
	if port != "" {
		s += ":" + port
	}
	s += rapid.SampledFrom([]string{"", "/", "/a/b?c=d"}).Draw(t, "path")
	c.URL = s
	return c
}

func TestVP_C52(t *testing.T) {
	vp.Run(t, vp.Spec[c52Case]{ID: "C52", Gen: c52Gen, Prop: c52Prop, Known: c52Known})
}
