package httpproxy_test

// C52, configuration from the environment: FromEnvironment is the constructor most
// programs use. The environment is drawn (each of HTTP_PROXY, http_proxy, HTTPS_PROXY,
// https_proxy, NO_PROXY, no_proxy, REQUEST_METHOD unset, empty or set), and the Config it
// returns must be the one the documentation describes: the upper-case variable, or the
// lower-case one when the upper-case one is unset or empty; CGI when REQUEST_METHOD is
// set. The verdict of its ProxyFunc for an http and an https URL must be that of the
// equivalent literal Config.

import (
	"fmt"
	"net/url"
	"os"
	"testing"

	"golang.org/x/net/http/httpproxy"
	"pgregory.net/rapid"
	"verif/vp"
)

var c52EnvNames = []string{"HTTP_PROXY", "http_proxy", "HTTPS_PROXY", "https_proxy", "NO_PROXY", "no_proxy", "REQUEST_METHOD"}

type c52EnvCase struct {
	// Vals[i] is the value of c52EnvNames[i]; Set[i] false = the variable is unset
	Set  []bool   `json:"set"`
	Vals []string `json:"vals"`
	Host string   `json:"host"`
}

func c52EnvGen(t *rapid.T) c52EnvCase {
	var c c52EnvCase
	proxies := []string{"", "proxy-a.example:3128", "http://proxy-b.example", "https://proxy-c.example:443", "socks5://proxy-d.example", "10.1.2.3:8080"}
	noProxies := []string{"", "*", "example.com", ".example.com", "internal.example:8443", "10.0.0.0/8", "other.test"}
	for i, n := range c52EnvNames {
		c.Set = append(c.Set, rapid.IntRange(0, 2).Draw(t, "set"+n) != 0)
		switch {
		case i < 4:
			c.Vals = append(c.Vals, rapid.SampledFrom(proxies).Draw(t, n))
		case i < 6:
			c.Vals = append(c.Vals, rapid.SampledFrom(noProxies).Draw(t, n))
		default:
			c.Vals = append(c.Vals, rapid.SampledFrom([]string{"", "GET"}).Draw(t, n))
		}
	}
	c.Host = rapid.SampledFrom([]string{"example.com", "www.example.com", "internal.example:8443", "10.9.8.7", "other.test", "unrelated.invalid"}).Draw(t, "host")
	return c
}

func c52EnvProp(c c52EnvCase, r *vp.Rec) error {
	if len(c.Set) != len(c52EnvNames) || len(c.Vals) != len(c52EnvNames) {
		r.Discard("malformed case")
		return nil
	}
	saved := map[string]*string{}
	for _, n := range c52EnvNames {
		if v, ok := os.LookupEnv(n); ok {
			v := v
			saved[n] = &v
		} else {
			saved[n] = nil
		}
	}
	defer func() {
		for n, v := range saved {
			if v == nil {
				os.Unsetenv(n)
			} else {
				os.Setenv(n, *v)
			}
		}
	}()
	val := map[string]string{}
	for i, n := range c52EnvNames {
		if c.Set[i] {
			os.Setenv(n, c.Vals[i])
			val[n] = c.Vals[i]
		} else {
			os.Unsetenv(n)
		}
	}
	first := func(a, b string) string {
		if val[a] != "" {
			return val[a]
		}
		return val[b]
	}
	want := httpproxy.Config{
		HTTPProxy:  first("HTTP_PROXY", "http_proxy"),
		HTTPSProxy: first("HTTPS_PROXY", "https_proxy"),
		NoProxy:    first("NO_PROXY", "no_proxy"),
		CGI:        val["REQUEST_METHOD"] != "",
	}
	got := httpproxy.FromEnvironment()
	if got == nil || *got != want {
		return fmt.Errorf("environment %v: FromEnvironment() = %+v, the documented mapping gives %+v", val, got, want)
	}
	if want.HTTPSProxy != "" && val["HTTPS_PROXY"] == "" {
		r.Class("https proxy from the lower-case variable only")
		r.NonTrivial()
	}
	if want.HTTPProxy != want.HTTPSProxy {
		r.Class("http and https proxies differ")
	}
	for _, scheme := range []string{"http", "https"} {
		u := &url.URL{Scheme: scheme, Host: c.Host, Path: "/"}
		g, gerr := got.ProxyFunc()(u)
		w, werr := want.ProxyFunc()(u)
		if (gerr == nil) != (werr == nil) || fmt.Sprint(g) != fmt.Sprint(w) {
			return fmt.Errorf("environment %v, %s: proxy from FromEnvironment() = %v, %v; from the equivalent literal Config = %v, %v", val, u, g, gerr, w, werr)
		}
	}
	return nil
}

func TestVP_C52_env(t *testing.T) {
	vp.Run(t, vp.Spec[c52EnvCase]{ID: "C52", Sub: "env", Gen: c52EnvGen, Prop: c52EnvProp})
}
