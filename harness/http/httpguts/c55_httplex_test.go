package httpguts

import (
	"bytes"
	"fmt"
	"math"
	"strings"
	"testing"

	"pgregory.net/rapid"
	"verif/vp"
)

// C55: HTTP header validity checks match the RFC grammar.
//
// Oracle: an independent tchar predicate written from RFC 9110 section 5.6.2
//   tchar = "!" / "#" / "$" / "%" / "&" / "'" / "*" / "+" / "-" / "." /
//           "^" / "_" / "`" / "|" / "~" / DIGIT / ALPHA
// and a reference token search built from bytes.Split / bytes.Trim.

func c55Tchar(b byte) bool {
	switch {
	case b >= '0' && b <= '9', b >= 'a' && b <= 'z', b >= 'A' && b <= 'Z':
		return true
	}
	return strings.IndexByte("!#$%&'*+-.^_`|~", b) >= 0
}

func c55RefName(s []byte) bool {
	if len(s) == 0 {
		return false
	}
	for _, b := range s {
		if !c55Tchar(b) {
			return false
		}
	}
	return true
}

// c55BadValueByte: a control byte other than horizontal tab.
func c55BadValueByte(b byte) bool {
	return (b < 0x20 && b != 0x09) || b == 0x7f
}

func c55RefValue(s []byte) bool {
	for _, b := range s {
		if c55BadValueByte(b) {
			return false
		}
	}
	return true
}

func c55Lower(b byte) byte {
	if b >= 'A' && b <= 'Z' {
		return b - 'A' + 'a'
	}
	return b
}

func c55EqualFoldASCII(a, b []byte) bool {
	if len(a) != len(b) {
		return false
	}
	for i := range a {
		if c55Lower(a[i]) != c55Lower(b[i]) {
			return false
		}
	}
	return true
}

func c55RefContains(values [][]byte, tok []byte) bool {
	for _, v := range values {
		for _, el := range bytes.Split(v, []byte{','}) {
			if c55EqualFoldASCII(bytes.Trim(el, " \t"), tok) {
				return true
			}
		}
	}
	return false
}

// ---------------------------------------------------------------------------
// Exhaustive part: every byte, every byte pair, every rune.

type c55EnumCase struct {
	What string `json:"what"`
	S    []byte `json:"s,omitempty"`
	R    int64  `json:"r,omitempty"`
}

func TestVP_C55_bytes(t *testing.T) {
	vp.RunEnum(t, "C55", "bytes", true, func(e *vp.Enum) {
		checkStr := func(s []byte) {
			str := string(s)
			wn, wv := c55RefName(s), c55RefValue(s)
			if got := ValidHeaderFieldName(str); got != wn {
				e.Fail(c55EnumCase{What: "name", S: s}, fmt.Errorf("ValidHeaderFieldName(%q)=%v, RFC 9110 token says %v", str, got, wn))
			}
			if got := ValidHeaderFieldValue(str); got != wv {
				e.Fail(c55EnumCase{What: "value", S: s}, fmt.Errorf("ValidHeaderFieldValue(%q)=%v, want %v (control bytes other than HTAB are rejected, nothing else)", str, got, wv))
			}
			cls := "str:"
			if wn {
				cls += "name+"
			} else {
				cls += "name-"
			}
			if wv {
				cls += "value+"
			} else {
				cls += "value-"
			}
			e.Eval(len(s) == 2 && c55Tchar(s[0]) != c55Tchar(s[1]), cls, func() any { return c55EnumCase{What: "pair", S: s} })
		}
		checkStr(nil)
		for a := 0; a < 256; a++ {
			checkStr([]byte{byte(a)})
		}
		for a := 0; a < 256; a++ {
			for b := 0; b < 256; b++ {
				checkStr([]byte{byte(a), byte(b)})
			}
		}
		// every token search on a single byte element against a single byte token
		for a := 0; a < 256; a++ {
			for b := 0; b < 128; b++ {
				vals := [][]byte{{byte(a)}}
				tok := []byte{byte(b)}
				want := c55RefContains(vals, tok)
				got := HeaderValuesContainsToken([]string{string(vals[0])}, string(tok))
				if got != want {
					e.Fail(c55EnumCase{What: "contains", S: []byte{byte(a), byte(b)}}, fmt.Errorf("HeaderValuesContainsToken([%q], %q)=%v, reference %v", vals[0], tok, got, want))
				}
				cls := "contains1:miss"
				if want {
					cls = "contains1:hit"
				}
				e.Eval(want && a != b, cls, func() any { return c55EnumCase{What: "contains", S: []byte{byte(a), byte(b)}} })
			}
		}
		// every rune: all code points, plus values beyond the Unicode range
		checkRune := func(r rune) {
			want := r >= 0 && r < 0x80 && c55Tchar(byte(r))
			if got := IsTokenRune(r); got != want {
				e.Fail(c55EnumCase{What: "rune", R: int64(r)}, fmt.Errorf("IsTokenRune(%#x)=%v, tchar set says %v", r, got, want))
			}
			cls := "rune:other"
			if want {
				cls = "rune:tchar"
			} else if r < 0x80 {
				cls = "rune:ascii-non-tchar"
			} else if byte(r) < 0x80 && c55Tchar(byte(r)) {
				cls = "rune:low-byte-is-tchar"
			}
			e.Eval(cls != "rune:other", cls, func() any { return c55EnumCase{What: "rune", R: int64(r)} })
		}
		for r := rune(0); r <= 0x10FFFF; r++ {
			checkRune(r)
		}
		for _, r := range []rune{0x110000, 0x110021, 0x7fffff21, math.MaxInt32 - 1, math.MaxInt32} {
			checkRune(r)
		}
		// Negative rune values are not code points and cannot come out of a string;
		// they are outside the statement ("all strings"). Observed, not asserted.
		neg := 0
		for r := rune(-1); r >= -0x400; r-- {
			if IsTokenRune(r) {
				neg++
			}
		}
		e.Note(fmt.Sprintf("not asserted: IsTokenRune is true for %d of the 1024 negative rune values -1..-0x400 (not code points; byte(r) truncation)", neg))
	})
}

// ---------------------------------------------------------------------------
// Strings.

type c55StrCase struct {
	S []byte `json:"s"`
}

var c55ByteClasses = []*rapid.Generator[byte]{
	rapid.SampledFrom([]byte("abcxyzABCXYZ0189")),                          // alnum tchar
	rapid.SampledFrom([]byte("!#$%&'*+-.^_`|~")),                           // symbol tchar
	rapid.SampledFrom([]byte("\"(),/:;<=>?@[\\]{} ")),                      // separators and SP
	rapid.SampledFrom([]byte{0, 1, 8, 9, 10, 11, 12, 13, 14, 27, 31, 127}), // CTL incl. HTAB
	rapid.ByteRange(0x80, 0xff),                                            // obs-text
	rapid.Byte(),
}

func c55ByteGen(weights []int) *rapid.Generator[byte] {
	var idx []int
	for i, w := range weights {
		for j := 0; j < w; j++ {
			idx = append(idx, i)
		}
	}
	return rapid.Custom(func(t *rapid.T) byte {
		return c55ByteClasses[rapid.SampledFrom(idx).Draw(t, "cls")].Draw(t, "b")
	})
}

func c55StrGen(t *rapid.T) c55StrCase {
	profiles := [][]int{
		{8, 4, 0, 0, 0, 0}, // valid names
		{8, 4, 1, 0, 0, 0}, // names with a rare separator
		{8, 4, 0, 1, 0, 0}, // names/values with a rare CTL
		{6, 3, 3, 0, 2, 0}, // valid values
		{6, 3, 3, 1, 2, 0}, // values with a rare CTL
		{1, 1, 1, 1, 1, 1}, // anything
	}
	p := rapid.SampledFrom(profiles).Draw(t, "profile")
	return c55StrCase{S: rapid.SliceOfN(c55ByteGen(p), 0, 24).Draw(t, "s")}
}

func c55StrProp(c c55StrCase, r *vp.Rec) error {
	s := string(c.S)
	wn, wv := c55RefName(c.S), c55RefValue(c.S)
	if got := ValidHeaderFieldName(s); got != wn {
		return fmt.Errorf("ValidHeaderFieldName(%q)=%v, RFC 9110 token says %v", s, got, wn)
	}
	if got := ValidHeaderFieldValue(s); got != wv {
		return fmt.Errorf("ValidHeaderFieldValue(%q)=%v, want %v", s, got, wv)
	}
	for _, ru := range s {
		want := ru < 0x80 && c55Tchar(byte(ru))
		if got := IsTokenRune(ru); got != want {
			return fmt.Errorf("IsTokenRune(%#x)=%v, want %v", ru, got, want)
		}
	}
	nt, nn, bad, good := 0, 0, 0, 0
	for _, b := range c.S {
		if c55Tchar(b) {
			nt++
		} else {
			nn++
		}
		if c55BadValueByte(b) {
			bad++
		} else {
			good++
		}
	}
	if wn {
		r.Class("name:valid")
	} else {
		r.Class("name:invalid")
	}
	if wv {
		r.Class("value:valid")
	} else {
		r.Class("value:invalid")
	}
	if nt > 0 && nn > 0 {
		r.Class("name:mixed")
		r.NonTrivial()
	}
	if bad > 0 && good > 0 {
		r.Class("value:mixed")
		r.NonTrivial()
	}
	if nn == 1 && len(c.S) >= 4 {
		r.Class("name:single-bad-byte")
	}
	if bad == 1 && len(c.S) >= 4 {
		r.Class("value:single-bad-byte")
	}
	return nil
}

func TestVP_C55_strings(t *testing.T) {
	vp.Run(t, vp.Spec[c55StrCase]{ID: "C55", Sub: "strings", Gen: c55StrGen, Prop: c55StrProp,
		Sample: func(c c55StrCase) any { return fmt.Sprintf("%q", c.S) }})
}

// ---------------------------------------------------------------------------
// Token search.

type c55TokCase struct {
	Values [][]byte `json:"values"`
	Token  []byte   `json:"token"`
}

var c55Elements = []string{
	"a", "A", "close", "Close", "keep-alive", "Keep-Alive", "upgrade", "chunked", "h2c", "te",
	"", "a b", "a\tb", "\"a\"", "\"close", "close\"", "x@", "x`", "[z]", "{z}", "^~", "_\x7f",
	"a;q=1", "closé", "K", "k", "K", "\xff", "a\x00", "100-continue",
}

var c55Pads = []string{"", "", "", " ", "\t", "  ", " \t ", "\t\t", "\n", "\r", "\v", "\f", " ", "\x00"}

func c55TokGen(t *rapid.T) c55TokCase {
	elem := rapid.Custom(func(t *rapid.T) []byte {
		var core string
		if rapid.IntRange(0, 5).Draw(t, "rnd") == 0 {
			core = string(rapid.SliceOfN(c55ByteGen([]int{6, 2, 2, 1, 1, 0}), 0, 6).Draw(t, "core"))
		} else {
			core = rapid.SampledFrom(c55Elements).Draw(t, "core")
		}
		return []byte(rapid.SampledFrom(c55Pads).Draw(t, "lpad") + core + rapid.SampledFrom(c55Pads).Draw(t, "rpad"))
	})
	value := rapid.Custom(func(t *rapid.T) []byte {
		return bytes.Join(rapid.SliceOfN(elem, 0, 4).Draw(t, "elems"), []byte{','})
	})
	c := c55TokCase{Values: rapid.SliceOfN(value, 0, 4).Draw(t, "values")}
	// token: derived from some element of some value, or independent
	var els [][]byte
	for _, v := range c.Values {
		for _, el := range bytes.Split(v, []byte{','}) {
			els = append(els, el)
		}
	}
	mode := rapid.IntRange(0, 9).Draw(t, "mode")
	if len(els) == 0 || mode == 9 {
		c.Token = elem.Draw(t, "tok")
		return c
	}
	el := rapid.SampledFrom(els).Draw(t, "from")
	trimmed := bytes.Trim(el, " \t")
	tok := append([]byte{}, trimmed...)
	switch mode {
	case 0: // exact (trimmed)
	case 1: // untrimmed
		tok = append([]byte{}, el...)
	case 2: // swap ASCII letter case at drawn positions
		for i := range tok {
			if rapid.Bool().Draw(t, "flip") {
				switch {
				case tok[i] >= 'a' && tok[i] <= 'z':
					tok[i] -= 32
				case tok[i] >= 'A' && tok[i] <= 'Z':
					tok[i] += 32
				}
			}
		}
	case 3: // toggle bit 0x20 of one byte regardless of class ('@'<->'`', '['<->'{', ...)
		if len(tok) > 0 {
			i := rapid.IntRange(0, len(tok)-1).Draw(t, "i")
			tok[i] ^= 0x20
		}
	case 4: // proper prefix
		if len(tok) > 0 {
			tok = tok[:rapid.IntRange(0, len(tok)-1).Draw(t, "n")]
		}
	case 5: // proper suffix
		if len(tok) > 0 {
			tok = tok[rapid.IntRange(1, len(tok)).Draw(t, "n"):]
		}
	case 6: // element plus neighbour (spans a comma)
		v := rapid.SampledFrom(c.Values).Draw(t, "v")
		tok = append([]byte{}, v...)
	case 7: // one byte replaced
		if len(tok) > 0 {
			i := rapid.IntRange(0, len(tok)-1).Draw(t, "i")
			tok[i] = c55ByteGen([]int{4, 2, 2, 1, 1, 0}).Draw(t, "b")
		}
	case 8: // extra byte appended or prepended
		b := c55ByteGen([]int{4, 2, 2, 1, 1, 0}).Draw(t, "b")
		if rapid.Bool().Draw(t, "front") {
			tok = append([]byte{b}, tok...)
		} else {
			tok = append(tok, b)
		}
	}
	c.Token = tok
	return c
}

func c55TokProp(c c55TokCase, r *vp.Rec) error {
	vals := make([]string, len(c.Values))
	for i, v := range c.Values {
		vals[i] = string(v)
	}
	got := HeaderValuesContainsToken(vals, string(c.Token))
	want := c55RefContains(c.Values, c.Token)
	ascii := true
	for _, b := range c.Token {
		if b >= 0x80 {
			ascii = false
		}
	}
	if !ascii {
		// A string with non-ASCII bytes is not a token; the statement speaks of
		// tokens. Only the direction "found => equals some element" is asserted.
		r.Class("token:non-ascii(one-sided)")
		if got && !want {
			return fmt.Errorf("HeaderValuesContainsToken(%q, %q)=true but no element equals it", vals, c.Token)
		}
		return nil
	}
	if got != want {
		return fmt.Errorf("HeaderValuesContainsToken(%q, %q)=%v, reference (split on ',', trim SP/HTAB, ASCII case-insensitive equality) says %v", vals, c.Token, got, want)
	}
	if want {
		r.Class("found")
		exact := false
		for _, v := range c.Values {
			for _, el := range bytes.Split(v, []byte{','}) {
				if bytes.Equal(el, c.Token) {
					exact = true
				}
			}
		}
		if !exact {
			r.Class("found:needs-trim-or-case-fold")
			r.NonTrivial()
		}
	} else {
		r.Class("not-found")
		// near miss: token occurs inside some value (ASCII case-insensitively) without being an element
		lt := bytes.ToLower(c.Token)
		for _, v := range c.Values {
			if len(lt) > 0 && bytes.Contains(bytes.ToLower(v), lt) {
				r.Class("not-found:proper-substring")
				r.NonTrivial()
				break
			}
		}
		// near miss: equal to an element after folding with |0x20 or after trimming other whitespace
		for _, v := range c.Values {
			for _, el := range bytes.Split(v, []byte{','}) {
				tr := bytes.Trim(el, " \t")
				if len(tr) == len(c.Token) && len(tr) > 0 {
					same := true
					for i := range tr {
						if tr[i]|0x20 != c.Token[i]|0x20 {
							same = false
						}
					}
					if same {
						r.Class("not-found:differs-only-in-bit-0x20")
						r.NonTrivial()
					}
				}
				if bytes.Equal(bytes.TrimSpace(el), bytes.TrimSpace(c.Token)) && len(bytes.TrimSpace(el)) > 0 {
					r.Class("not-found:differs-only-in-non-OWS-whitespace")
					r.NonTrivial()
				}
			}
		}
	}
	if len(c.Token) == 0 {
		r.Class("token:empty")
	}
	return nil
}

func TestVP_C55_token(t *testing.T) {
	vp.Run(t, vp.Spec[c55TokCase]{ID: "C55", Sub: "token", Gen: c55TokGen, Prop: c55TokProp,
		Sample: func(c c55TokCase) any {
			vs := make([]string, len(c.Values))
			for i, v := range c.Values {
				vs[i] = string(v)
			}
			return fmt.Sprintf("values=%q token=%q", vs, c.Token)
		}})
}
