package bpf

import (
	"fmt"
	"testing"

	"pgregory.net/rapid"
	"verif/vp"
)

// C49: the BPF VM computes classic BPF semantics on every packet.
//
// For every generated program that NewVM accepts without error, Run must not panic,
// must not return an error, and must return the verdict of c49Ref, a classic-BPF
// interpreter written from the BPF machine definition (McCanne/Jacobson, bpf(4),
// <linux/filter.h> opcode values) that executes the *assembled* program
// (Assemble(prog), RawInstructions), not the typed instructions.

type c49Case struct {
	Prog []bpfIns `json:"prog"`
	Pkt  []byte   `json:"pkt"`
	// More are further packets run through the SAME VM value afterwards ("every
	// input packet": a VM is built once and used for many packets; each run must give
	// the verdict of a reference run that starts from a clean machine).
	More [][]byte `json:"more,omitempty"`
	// Fill appends that many further instructions to Prog (long programs, kept compact
	// in the case file): "ret #index", except at the FillJumps positions.
	Fill      int        `json:"fill,omitempty"`
	FillJumps []c49FillJ `json:"fill_jumps,omitempty"`
}

// c49FillJ replaces filler instruction At by a jump (Ins.Kind Jump, JumpIf or JumpIfX).
type c49FillJ struct {
	At  int    `json:"at"`
	Ins bpfIns `json:"ins"`
}

// c49Expand returns the whole program of the case.
func c49Expand(c c49Case) []bpfIns {
	if c.Fill <= 0 {
		return c.Prog
	}
	out := append([]bpfIns(nil), c.Prog...)
	base := len(out)
	for i := 0; i < c.Fill; i++ {
		out = append(out, bpfIns{Kind: "RetConstant", K: uint32(base + i)})
	}
	for _, j := range c.FillJumps {
		if j.At >= 0 && j.At < c.Fill-1 {
			out[base+j.At] = j.Ins
		}
	}
	return out
}

type c49Trace struct {
	ambiguous   string // non-empty: the statement does not determine the verdict
	takenJumps  int    // jumps executed with a non-zero displacement
	longJumps   int    // unconditional jumps executed with a displacement >= 256
	inBounds    int    // packet loads that were in bounds
	oobLoad     bool
	divZeroX    bool
	bigShift    bool
	scratchRead bool
	steps       int
}

// c49Ref runs a classic BPF program over pkt. It returns an error for opcodes that are
// not classic BPF (cannot happen for programs assembled from defined typed values).
func c49Ref(prog []RawInstruction, pkt []byte) (uint32, c49Trace, error) {
	var (
		A, X uint32
		M    [16]uint32
		tr   c49Trace
	)
	n := uint64(len(pkt))
	load := func(off uint64, size uint64) (uint32, bool) {
		if off+size > n {
			tr.oobLoad = true
			return 0, false
		}
		tr.inBounds++
		var v uint32
		for i := uint64(0); i < size; i++ { // network byte order
			v = v<<8 | uint32(pkt[off+i])
		}
		return v, true
	}
	pc := int64(0)
	for {
		if pc < 0 || pc >= int64(len(prog)) {
			// a validated classic program cannot get here; nothing is defined
			tr.ambiguous = "control left the program"
			return 0, tr, nil
		}
		in := prog[pc]
		pc++
		tr.steps++
		k := in.K
		if in.Op > 0xff {
			return 0, tr, fmt.Errorf("instruction %d: opcode 0x%x is not classic BPF", pc-1, in.Op)
		}
		switch in.Op & 0x07 {
		case 0x00, 0x01: // BPF_LD, BPF_LDX
			toX := in.Op&0x07 == 0x01
			var v uint32
			switch in.Op &^ 0x01 {
			case 0x00: // W|IMM
				v = k
			case 0x60: // W|MEM
				if k > 15 {
					return 0, tr, fmt.Errorf("instruction %d: scratch slot %d", pc-1, k)
				}
				tr.scratchRead = true
				v = M[k]
			case 0x80: // W|LEN
				v = uint32(n)
			case 0x20, 0x28, 0x30, 0x40, 0x48, 0x50: // ABS / IND, W H B
				if toX {
					return 0, tr, fmt.Errorf("instruction %d: opcode 0x%x is not classic BPF", pc-1, in.Op)
				}
				size := uint64(4) // BPF_W
				switch in.Op & 0x18 {
				case 0x08: // BPF_H
					size = 2
				case 0x10: // BPF_B
					size = 1
				}
				off := uint64(k)
				if in.Op&0xe0 == 0x40 {
					off += uint64(X)
					if off > 0xffffffff {
						// the statement does not say whether X+k wraps at 2^32
						tr.ambiguous = "indirect load address X+k exceeds 32 bits"
						return 0, tr, nil
					}
				}
				var ok bool
				if v, ok = load(off, size); !ok {
					return 0, tr, nil
				}
			case 0xb0: // B|MSH, only as LDX
				if !toX {
					return 0, tr, fmt.Errorf("instruction %d: opcode 0x%x is not classic BPF", pc-1, in.Op)
				}
				b, ok := load(uint64(k), 1)
				if !ok {
					return 0, tr, nil
				}
				v = 4 * (b & 0x0f)
			default:
				return 0, tr, fmt.Errorf("instruction %d: opcode 0x%x is not classic BPF", pc-1, in.Op)
			}
			if toX {
				X = v
			} else {
				A = v
			}
		case 0x02, 0x03: // BPF_ST, BPF_STX
			if in.Op > 0x03 {
				return 0, tr, fmt.Errorf("instruction %d: opcode 0x%x is not classic BPF", pc-1, in.Op)
			}
			if k > 15 {
				return 0, tr, fmt.Errorf("instruction %d: scratch slot %d", pc-1, k)
			}
			if in.Op == 0x02 {
				M[k] = A
			} else {
				M[k] = X
			}
		case 0x04: // BPF_ALU
			src := k
			if in.Op&0x08 != 0 {
				src = X
			}
			switch in.Op & 0xf0 {
			case 0x00:
				A += src
			case 0x10:
				A -= src
			case 0x20:
				A *= src
			case 0x30, 0x90:
				if src == 0 {
					if in.Op&0x08 == 0 {
						tr.ambiguous = "division by the constant 0"
						return 0, tr, nil
					}
					tr.divZeroX = true
					return 0, tr, nil
				}
				if in.Op&0xf0 == 0x30 {
					A /= src
				} else {
					A %= src
				}
			case 0x40:
				A |= src
			case 0x50:
				A &= src
			case 0x60:
				if src >= 32 {
					tr.bigShift = true
					A = 0
				} else {
					A <<= src
				}
			case 0x70:
				if src >= 32 {
					tr.bigShift = true
					A = 0
				} else {
					A >>= src
				}
			case 0x80:
				if in.Op != 0x84 {
					return 0, tr, fmt.Errorf("instruction %d: opcode 0x%x is not classic BPF", pc-1, in.Op)
				}
				A = -A
			case 0xa0:
				A ^= src
			default:
				return 0, tr, fmt.Errorf("instruction %d: opcode 0x%x is not classic BPF", pc-1, in.Op)
			}
		case 0x05: // BPF_JMP
			if in.Op == 0x05 { // JA
				if k != 0 {
					tr.takenJumps++
				}
				if k >= 256 {
					tr.longJumps++
				}
				pc += int64(k)
				continue
			}
			src := k
			if in.Op&0x08 != 0 {
				src = X
			}
			var c bool
			switch in.Op & 0xf0 {
			case 0x10:
				c = A == src
			case 0x20:
				c = A > src
			case 0x30:
				c = A >= src
			case 0x40:
				c = A&src != 0
			default:
				return 0, tr, fmt.Errorf("instruction %d: opcode 0x%x is not classic BPF", pc-1, in.Op)
			}
			d := in.Jf
			if c {
				d = in.Jt
			}
			if d != 0 {
				tr.takenJumps++
			}
			pc += int64(d)
		case 0x06: // BPF_RET
			switch in.Op {
			case 0x06:
				return k, tr, nil
			case 0x16:
				return A, tr, nil
			}
			return 0, tr, fmt.Errorf("instruction %d: opcode 0x%x is not classic BPF", pc-1, in.Op)
		case 0x07: // BPF_MISC
			switch in.Op {
			case 0x07:
				X = A
			case 0x87:
				A = X
			default:
				return 0, tr, fmt.Errorf("instruction %d: opcode 0x%x is not classic BPF", pc-1, in.Op)
			}
		}
	}
}

func c49Prop(c c49Case, r *vp.Rec) error {
	c.Prog = c49Expand(c)
	prog := make([]Instruction, len(c.Prog))
	for i, x := range c.Prog {
		prog[i] = x.build()
		if prog[i] == nil {
			return fmt.Errorf("harness: unknown instruction kind %q", x.Kind)
		}
		if x.Kind == "NegateA" {
			r.Discard("uses NegateA")
			return nil
		}
	}
	vm, err := NewVM(prog)
	if err != nil {
		r.Discard("NewVM rejected the program")
		return nil
	}
	raw, err := Assemble(prog)
	if err != nil {
		return fmt.Errorf("NewVM accepted a program that Assemble rejects: %v", err)
	}
	got, rerr := vm.Run(c.Pkt) // a panic is caught by the runner and reported with the case
	want, tr, referr := c49Ref(raw, c.Pkt)
	if referr != nil {
		return fmt.Errorf("the assembled program is not classic BPF: %v", referr)
	}
	if rerr != nil {
		return fmt.Errorf("Run returned error %v (reference verdict %d)", rerr, want)
	}
	r.Classf("len:%s", c49Bucket(len(c.Prog)))
	if tr.ambiguous != "" {
		r.Class("ambiguous: " + tr.ambiguous)
		return nil
	}
	if got < 0 || int64(got) > 0xffffffff || uint32(got) != want {
		return fmt.Errorf("Run returned %d, the reference interpreter %d (after %d instructions)", got, want, tr.steps)
	}
	if tr.oobLoad {
		r.Class("end: out-of-bounds load")
	} else if tr.divZeroX {
		r.Class("end: div/mod by X=0")
	} else {
		r.Class("end: return")
	}
	if tr.bigShift {
		r.Class("shift>=32")
	}
	if tr.scratchRead {
		r.Class("scratch read")
	}
	if tr.takenJumps > 0 {
		r.Class("jump taken")
	}
	if tr.longJumps > 0 {
		r.Class("unconditional jump over 256 or more instructions taken")
		r.NonTrivial()
	}
	if tr.inBounds > 0 {
		r.Class("in-bounds load")
	}
	if want != 0 {
		r.Class("verdict != 0")
	}
	if tr.takenJumps > 0 && tr.inBounds > 0 {
		r.NonTrivial()
	}
	for i, pkt := range c.More {
		got, rerr := vm.Run(pkt)
		want, tr2, referr := c49Ref(raw, pkt)
		if referr != nil || tr2.ambiguous != "" {
			continue
		}
		if rerr != nil {
			return fmt.Errorf("Run on packet %d of a reused VM returned error %v (reference verdict %d)", i+2, rerr, want)
		}
		if got < 0 || int64(got) > 0xffffffff || uint32(got) != want {
			return fmt.Errorf("Run on packet %d of a reused VM returned %d, the reference interpreter (clean machine) %d", i+2, got, want)
		}
		r.Class("reused-vm-run")
		if tr2.scratchRead && tr.steps != tr2.steps {
			r.Class("reused-vm-run: scratch read on a different path")
		}
	}
	return nil
}

func c49Bucket(n int) string {
	switch {
	case n <= 1:
		return "1"
	case n <= 5:
		return "2-5"
	case n <= 15:
		return "6-15"
	case n <= 40:
		return "16-40"
	case n <= 257:
		return "41-257"
	}
	return "258-"
}

var c49Pool = []uint32{0, 1, 2, 3, 4, 7, 8, 15, 16, 31, 32, 33, 63, 64, 0x7f, 0x80, 0xff, 0x100, 0xffff, 0x10000,
	0x7fffffff, 0x80000000, 0x80000001, 0xfffffffe, 0xffffffff}

// c49Gen draws the packet first so that operands can be aimed at it.
func c49Gen(t *rapid.T) c49Case {
	var c c49Case
	pb := rapid.OneOf(rapid.SampledFrom([]byte{0, 1, 2, 0x0f, 0x45, 0x7f, 0x80, 0xff}), rapid.Byte())
	c.Pkt = rapid.SliceOfN(pb, rapid.SampledFrom([]int{0, 0, 4, 20, 60}).Draw(t, "minPkt"), 128).Draw(t, "pkt")
	if c.Pkt == nil {
		c.Pkt = []byte{}
	}
	L := len(c.Pkt)
	hostile := rapid.IntRange(0, 9).Draw(t, "hostile") == 0

	val := rapid.Custom(func(t *rapid.T) uint32 {
		switch rapid.IntRange(0, 9).Draw(t, "valKind") {
		case 0, 1:
			return rapid.Uint32().Draw(t, "u32")
		case 2, 3:
			return uint32(rapid.IntRange(0, 40).Draw(t, "small"))
		case 4:
			if L > 0 { // a value that occurs in the packet
				off := rapid.IntRange(0, L-1).Draw(t, "pktoff")
				size := rapid.SampledFrom([]int{1, 2, 4}).Draw(t, "pktsize")
				var v uint32
				for i := 0; i < size && off+i < L; i++ {
					v = v<<8 | uint32(c.Pkt[off+i])
				}
				return v
			}
			return uint32(L)
		}
		return rapid.SampledFrom(c49Pool).Draw(t, "pool")
	})
	off := rapid.Custom(func(t *rapid.T) uint32 {
		switch rapid.IntRange(0, 19).Draw(t, "offKind") {
		case 0:
			return rapid.SampledFrom([]uint32{0x7fffffff, 0x80000000, 0xfffff000, 0xfffff004, 0xfffffffc, 0xffffffff}).Draw(t, "hugeOff")
		case 1, 2, 3:
			return uint32(rapid.IntRange(max(L-5, 0), L+2).Draw(t, "edgeOff"))
		}
		return uint32(rapid.IntRange(0, max(L-1, 0)).Draw(t, "off"))
	})
	kinds := []string{
		"LoadConstant", "LoadConstant", "LoadConstant", "LoadConstant",
		"LoadScratch", "LoadScratch", "LoadScratch",
		"LoadAbsolute", "LoadAbsolute", "LoadAbsolute", "LoadAbsolute", "LoadAbsolute",
		"LoadIndirect", "LoadIndirect", "LoadIndirect", "LoadIndirect",
		"LoadMemShift", "LoadMemShift",
		"LoadExtension", "LoadExtension",
		"StoreScratch", "StoreScratch", "StoreScratch",
		"ALUOpConstant", "ALUOpConstant", "ALUOpConstant", "ALUOpConstant", "ALUOpConstant", "ALUOpConstant",
		"ALUOpX", "ALUOpX", "ALUOpX", "ALUOpX",
		"Jump", "Jump",
		"JumpIf", "JumpIf", "JumpIf", "JumpIf", "JumpIf", "JumpIf",
		"JumpIfX", "JumpIfX", "JumpIfX",
		"RetA", "RetConstant",
		"TAX", "TAX", "TXA", "TXA",
	}
	slot := rapid.Int64Range(0, 15)
	if hostile {
		slot = rapid.Int64Range(0, 16)
	}
	ins := rapid.Custom(func(t *rapid.T) bpfIns {
		x := bpfIns{Kind: rapid.SampledFrom(kinds).Draw(t, "kind")}
		switch x.Kind {
		case "LoadConstant":
			x.Reg = uint16(rapid.IntRange(0, 1).Draw(t, "reg"))
			x.K = val.Draw(t, "val")
			if x.Reg == 1 && rapid.Bool().Draw(t, "xInPkt") { // keep X usable as an index
				x.K = uint32(rapid.IntRange(0, L).Draw(t, "xval"))
			}
		case "LoadScratch", "StoreScratch":
			x.Reg = uint16(rapid.IntRange(0, 1).Draw(t, "reg"))
			x.N = slot.Draw(t, "slot")
		case "LoadAbsolute":
			x.N = rapid.SampledFrom(bpfDefSizes).Draw(t, "size")
			x.K = off.Draw(t, "off")
		case "LoadIndirect":
			x.N = rapid.SampledFrom(bpfDefSizes).Draw(t, "size")
			if rapid.IntRange(0, 2).Draw(t, "indKind") == 0 {
				x.K = off.Draw(t, "off")
			} else {
				x.K = uint32(rapid.IntRange(0, 8).Draw(t, "smallOff"))
			}
		case "LoadMemShift":
			x.K = off.Draw(t, "off")
		case "LoadExtension":
			x.N = 1 // ExtLen, the only extension Run implements
			if hostile && rapid.Bool().Draw(t, "otherExt") {
				x.N = rapid.SampledFrom(bpfDefExts).Draw(t, "ext")
			}
		case "ALUOpConstant":
			x.Op = rapid.SampledFrom(bpfDefALUOps).Draw(t, "aluop")
			x.K = val.Draw(t, "val")
			if (x.Op == 0x30 || x.Op == 0x90) && x.K == 0 && !hostile {
				x.K = 1 + uint32(rapid.IntRange(0, 9).Draw(t, "divisor"))
			}
		case "ALUOpX":
			x.Op = rapid.SampledFrom(bpfDefALUOps).Draw(t, "aluop")
		case "Jump":
			x.K = uint32(rapid.IntRange(0, 255).Draw(t, "skip")) // reduced below
		case "JumpIf":
			x.Op = rapid.SampledFrom(bpfDefJumpTest).Draw(t, "test")
			x.K = val.Draw(t, "val")
			x.T, x.F = rapid.Uint8().Draw(t, "t"), rapid.Uint8().Draw(t, "f")
		case "JumpIfX":
			x.Op = rapid.SampledFrom(bpfDefJumpTest).Draw(t, "test")
			x.T, x.F = rapid.Uint8().Draw(t, "t"), rapid.Uint8().Draw(t, "f")
		case "RetConstant":
			x.K = val.Draw(t, "val")
		}
		return x
	})
	c.Prog = rapid.SliceOfN(ins, rapid.SampledFrom([]int{1, 1, 3, 6, 12, 24}).Draw(t, "minProg"), 40).Draw(t, "prog")
	if !hostile || rapid.Bool().Draw(t, "endInReturn") {
		last := bpfIns{Kind: "RetA"}
		if rapid.IntRange(0, 2).Draw(t, "retKind") == 0 {
			last = bpfIns{Kind: "RetConstant", K: val.Draw(t, "retVal")}
		}
		c.Prog[len(c.Prog)-1] = last
	}
	// Fold the drawn skips into the room that is left (remaining-1 is the largest skip
	// NewVM can accept); hostile programs keep some skips one too large or unreduced.
	for i := range c.Prog {
		x := &c.Prog[i]
		room := len(c.Prog) - 1 - i // instructions after this one
		fold := func(v uint32) uint32 {
			if hostile && v%7 == 0 {
				if v%2 == 0 {
					return uint32(room) // one past the last valid target
				}
				return v
			}
			if room <= 0 {
				return 0
			}
			v %= uint32(room)
			if v > 4 && v%3 != 0 { // favour short jumps so that the skipped code stays small
				v %= 4
			}
			return v
		}
		switch x.Kind {
		case "Jump":
			x.K = fold(x.K)
		case "JumpIf", "JumpIfX":
			t, f := fold(uint32(x.T)), fold(uint32(x.F))
			x.T, x.F = uint8(min(t, 255)), uint8(min(f, 255))
		}
	}
	// further packets for the same VM: variations of the first one (other lengths,
	// flipped bytes) so that different paths of the same program are taken
	nmore := rapid.IntRange(0, 3).Draw(t, "more")
	for i := 0; i < nmore; i++ {
		q := append([]byte(nil), c.Pkt...)
		switch rapid.IntRange(0, 3).Draw(t, "moreKind") {
		case 0:
			q = rapid.SliceOfN(pb, 0, 128).Draw(t, "morePkt")
		case 1:
			if len(q) > 0 {
				q = q[:rapid.IntRange(0, len(q)-1).Draw(t, "cut")]
			}
		default:
			for j := rapid.IntRange(1, 4).Draw(t, "flips"); j > 0 && len(q) > 0; j-- {
				q[rapid.IntRange(0, len(q)-1).Draw(t, "at")] ^= byte(1 << rapid.IntRange(0, 7).Draw(t, "bit"))
			}
		}
		c.More = append(c.More, q)
	}
	return c
}

// c49LongGen draws programs of several hundred instructions: a short head of
// straight-line code, then filler "ret #index" instructions (the verdict tells where
// execution landed) among which sit jumps of any width, including unconditional jumps
// with skips of 256 and more, which only fit in programs this long.
func c49LongGen(t *rapid.T) c49Case {
	var c c49Case
	c.Pkt = rapid.SliceOfN(rapid.Byte(), 0, 16).Draw(t, "pkt")
	if c.Pkt == nil {
		c.Pkt = []byte{}
	}
	c.Fill = rapid.SampledFrom([]int{40, 200, 256, 257, 258, 300, 513, 600, 1000}).Draw(t, "fill")
	c.Fill += rapid.IntRange(0, 3).Draw(t, "fillExtra")
	head := rapid.IntRange(0, 3).Draw(t, "head")
	for i := 0; i < head; i++ {
		c.Prog = append(c.Prog, bpfIns{Kind: "LoadConstant", Reg: uint16(rapid.IntRange(0, 1).Draw(t, "reg")), K: rapid.SampledFrom(c49Pool).Draw(t, "val")})
	}
	// the filler jumps, in program order; position 0 is always a jump
	n := rapid.IntRange(1, 6).Draw(t, "jumps")
	at := 0
	for k := 0; k < n && at < c.Fill-1; k++ {
		room := c.Fill - 1 - at // filler instructions after this one
		skip := func(label string, max int) uint32 {
			max = min(max, room-1)
			if max <= 0 {
				return 0
			}
			switch rapid.IntRange(0, 3).Draw(t, label+"Kind") {
			case 0:
				return uint32(max)
			case 1:
				if max >= 256 {
					return uint32(rapid.SampledFrom([]int{255, 256, 257, 511, 512}).Draw(t, label+"Edge") % (max + 1))
				}
			}
			return uint32(rapid.IntRange(0, max).Draw(t, label))
		}
		var x bpfIns
		switch rapid.IntRange(0, 3).Draw(t, "jumpKind") {
		case 0:
			x = bpfIns{Kind: "JumpIf", Op: rapid.SampledFrom(bpfDefJumpTest).Draw(t, "test"), K: rapid.SampledFrom(c49Pool).Draw(t, "cmp"),
				T: uint8(skip("t", 255)), F: uint8(skip("f", 255))}
		case 1:
			x = bpfIns{Kind: "JumpIfX", Op: rapid.SampledFrom(bpfDefJumpTest).Draw(t, "test"), T: uint8(skip("t", 255)), F: uint8(skip("f", 255))}
		default:
			x = bpfIns{Kind: "Jump", K: skip("skip", 1<<20)}
		}
		c.FillJumps = append(c.FillJumps, c49FillJ{At: at, Ins: x})
		// the next jump sits on one of the landing spots of this one
		var land int
		switch x.Kind {
		case "Jump":
			land = at + 1 + int(x.K)
		default:
			land = at + 1 + int(x.T)
			if rapid.Bool().Draw(t, "followFalse") {
				land = at + 1 + int(x.F)
			}
		}
		at = land
	}
	return c
}

func TestVP_C49_long(t *testing.T) {
	vp.Run(t, vp.Spec[c49Case]{ID: "C49", Sub: "long", Gen: c49LongGen, Prop: c49Prop})
}

func TestVP_C49(t *testing.T) {
	vp.Run(t, vp.Spec[c49Case]{ID: "C49", Gen: c49Gen, Prop: c49Prop})
}
