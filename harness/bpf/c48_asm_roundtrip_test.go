package bpf

import (
	"encoding/json"
	"fmt"
	"os"
	"sort"
	"strconv"
	"strings"
	"testing"

	"pgregory.net/rapid"
	"verif/vp"
)

// C48: BPF assembly and disassembly are inverse.
//
// Two directions, exactly as the statement gives them:
//
//	(raw)   for every RawInstruction r whose Disassemble() is not a RawInstruction:
//	        r.Disassemble().Assemble() == r, exactly (and without error);
//	(typed) for every typed instruction value x that x.Assemble() accepts:
//	        x.Assemble().Disassemble() == x.
//
// A raw instruction that disassembles to itself (unrecognised) asserts nothing;
// a typed value that Assemble rejects is outside the domain (discarded, counted).

// ---------------------------------------------------------------- raw direction

type c48Raw struct {
	Op uint16 `json:"op"`
	Jt uint8  `json:"jt"`
	Jf uint8  `json:"jf"`
	K  uint32 `json:"k"`
}

// c48RawCheck returns the name of the typed instruction r disassembles to ("" when it
// stays raw) and the violation, if any.
func c48RawCheck(c c48Raw) (string, error) {
	ri := RawInstruction{Op: c.Op, Jt: c.Jt, Jf: c.Jf, K: c.K}
	d := ri.Disassemble()
	_, isRaw := d.(RawInstruction)
	// the package-level functions over slices are the same mapping
	ds, all := Disassemble([]RawInstruction{ri, ri})
	if len(ds) != 2 || ds[0] != d || ds[1] != d || all == isRaw {
		return "", fmt.Errorf("Disassemble([]RawInstruction{r, r}) = %#v, allDecoded=%v for r = %s, but r.Disassemble() = %#v", ds, all, c48Fmt(ri), d)
	}
	if isRaw {
		return "", nil
	}
	name := bpfTypeName(d)
	if backs, err := Assemble(ds); err == nil && (len(backs) != 2 || backs[0] != ri || backs[1] != ri) {
		return name, fmt.Errorf("Assemble(Disassemble([]RawInstruction{r, r})) = %v for r = %s", backs, c48Fmt(ri))
	}
	back, err := d.Assemble()
	if err != nil {
		return name, fmt.Errorf("raw %s disassembles to %#v, which Assemble rejects: %v", c48Fmt(ri), d, err)
	}
	if back != ri {
		return name, fmt.Errorf("raw %s disassembles to %#v, which assembles to %s", c48Fmt(ri), d, c48Fmt(back))
	}
	return name, nil
}

func c48Fmt(r RawInstruction) string {
	return fmt.Sprintf("{Op:0x%04x Jt:%d Jf:%d K:0x%08x}", r.Op, r.Jt, r.Jf, r.K)
}

// c48RawKnown is the predicate side of the known findings of the raw direction. Every
// predicate is over the input fields only (classic BPF encoding: class = Op&7, for
// loads width = Op&0x18 and mode = Op&0xe0, for ALU/JMP source = Op&8 and operation =
// Op&0xf0).
func c48RawKnown(c c48Raw) string {
	cls := c.Op & 7
	if c.Op > 0xff {
		// Disassemble masks only the low byte for ld/ldx/alu/jmp (st/stx/ret/misc are
		// compared as whole opcodes and stay raw).
		if cls == 0 || cls == 1 || cls == 4 || cls == 5 {
			return "c48-raw-op-high-byte"
		}
		return ""
	}
	op := c.Op
	mode, width := op&0xe0, op&0x18
	isLoad := cls == 0 || cls == 1
	condJump := cls == 5 && op&0xf0 != 0
	if isLoad {
		// destination register is dropped for abs/ind/len (always A) and msh (always X)
		if cls == 1 && (mode == 0x20 || mode == 0x40 || mode == 0x80) || cls == 0 && mode == 0xa0 {
			return "c48-raw-load-dest-ignored"
		}
		if mode == 0xa0 && width != 0x10 {
			return "c48-raw-msh-width-ignored"
		}
		if mode == 0x20 && (width == 0x08 || width == 0x10) && c.K >= 0xfffff000 {
			return "c48-ext-width"
		}
		if op == 0x20 && c.K == 0xfffff001 {
			return "c48-raw-extlen-alias"
		}
	}
	if op == 0x8c || op == 0x0d {
		return "c48-raw-source-bit-ignored"
	}
	if (c.Jt != 0 || c.Jf != 0) && !condJump {
		return "c48-raw-jt-jf-ignored"
	}
	if c.K != 0 {
		noK := false
		switch {
		case isLoad && mode == 0x80: // len
			noK = true
		case cls == 4 && (op&8 != 0 || op&0xf0 == 0x80): // alu x, neg
			noK = true
		case condJump && op&8 != 0: // jxx x
			noK = true
		case op == 0x16 || op == 0x07 || op == 0x87: // ret a, tax, txa
			noK = true
		}
		if noK {
			return "c48-raw-k-ignored"
		}
	}
	return ""
}

// c48Active reads the open findings of C48 (the enumeration cannot use Spec.Known).
func c48Active() map[string]bool {
	m := map[string]bool{}
	b, err := os.ReadFile(os.Getenv("VP_KNOWN"))
	if err != nil {
		return m
	}
	var kf struct {
		Findings []struct {
			Key, Property, Status string
		}
	}
	if json.Unmarshal(b, &kf) != nil {
		return m
	}
	for _, f := range kf.Findings {
		if f.Property == "C48" && f.Status == "open" {
			m[f.Key] = true
		}
	}
	return m
}

func c48RawProp(c c48Raw, r *vp.Rec) error {
	name, err := c48RawCheck(c)
	if err != nil {
		return err
	}
	if name == "" {
		r.Class("raw:unrecognised")
		return nil
	}
	r.Class("raw->" + name)
	if c.K != 0 || c.Jt != 0 || c.Jf != 0 {
		r.NonTrivial()
	}
	if c.K >= 0xfffff000 {
		r.Class("raw:K-in-extension-range")
	}
	return nil
}

var c48Ks = []uint32{0, 1, 2, 3, 14, 15, 16, 17, 31, 32, 255, 256, 0xffff, 0x10000, 0x7fffffff, 0x80000000,
	0xffffeffc, 0xffffefff, 0xfffff000, 0xfffff001, 0xfffff002, 0xfffff003, 0xfffff004, 0xfffff008, 0xfffff00c,
	0xfffff010, 0xfffff014, 0xfffff018, 0xfffff01c, 0xfffff020, 0xfffff024, 0xfffff028, 0xfffff02c, 0xfffff030,
	0xfffff034, 0xfffff038, 0xfffff03c, 0xfffff03d, 0xfffff040, 0xfffff100, 0xfffffffe, 0xffffffff}

func c48RawGen(t *rapid.T) c48Raw {
	var c c48Raw
	switch rapid.IntRange(0, 7).Draw(t, "opKind") {
	case 0:
		c.Op = rapid.Uint16().Draw(t, "op16")
	default:
		c.Op = uint16(rapid.IntRange(0, 255).Draw(t, "op8"))
	}
	if rapid.IntRange(0, 2).Draw(t, "skips") == 0 { // mostly Jt = Jf = 0: only conditional jumps carry them
		sk := rapid.OneOf(rapid.SampledFrom([]uint8{0, 1, 2, 255}), rapid.Uint8())
		c.Jt = sk.Draw(t, "jt")
		c.Jf = sk.Draw(t, "jf")
	}
	switch rapid.IntRange(0, 3).Draw(t, "kKind") {
	case 0:
		c.K = rapid.Uint32().Draw(t, "k")
	case 1:
		c.K = 0xfffff000 + uint32(rapid.IntRange(-8, 0xfff).Draw(t, "kext"))
	default:
		c.K = rapid.SampledFrom(c48Ks).Draw(t, "kb")
	}
	return c
}

func TestVP_C48_raw(t *testing.T) {
	vp.Run(t, vp.Spec[c48Raw]{ID: "C48", Sub: "raw", Gen: c48RawGen, Prop: c48RawProp, Known: c48RawKnown})
}

// ---------------------------------------------------------------- raw grid

func c48Shard() (int, int) {
	i, _ := strconv.Atoi(os.Getenv("VP_SHARD"))
	n, _ := strconv.Atoi(os.Getenv("VP_SHARDS"))
	if n < 1 {
		n, i = 1, 0
	}
	return i, n
}

// c48ReplayEnum evaluates a replay file of an enumeration sub-check on its case (the
// runtime would re-run the whole enumeration instead). Returns false when the file is
// for another sub-check.
func c48ReplayEnum[C any](t *testing.T, subPrefix string, check func(C) error) bool {
	p := os.Getenv("VP_REPLAY")
	if p == "" {
		return false
	}
	b, err := os.ReadFile(p)
	var ff struct {
		ID, Sub string
		Case    json.RawMessage
	}
	if err != nil || json.Unmarshal(b, &ff) != nil || ff.ID != "C48" || !strings.HasPrefix(ff.Sub, subPrefix) {
		t.Skip("replay file is for another check")
		return true
	}
	var c C
	if err := json.Unmarshal(ff.Case, &c); err != nil {
		t.Fatalf("VP: bad case in replay file: %v", err)
	}
	if err := check(c); err != nil {
		fmt.Printf("VP-REPLAY-FAIL C48 %s: %v\n", ff.Sub, err)
		t.Fatalf("replay failed: %v", err)
	}
	fmt.Printf("VP-REPLAY-PASS C48 %s\n", ff.Sub)
	return true
}

func c48NoteExcluded(e *vp.Enum, sub string, excl map[string]int) {
	keys := make([]string, 0, len(excl))
	for k := range excl {
		keys = append(keys, k)
	}
	sort.Strings(keys)
	for _, k := range keys {
		e.Note(fmt.Sprintf("%s: enumeration items excluded as known finding %s: %d", sub, k, excl[k]))
	}
}

// TestVP_C48_grid enumerates all 2^16 opcodes x a Jt/Jf grid x a K grid, plus, for the
// 256 one-byte opcodes, a dense K sweep over the whole extension range. In the
// thorough tier the opcodes are split over the shards and the grids are larger.
func TestVP_C48_grid(t *testing.T) {
	if c48ReplayEnum(t, "grid", func(c c48Raw) error { _, err := c48RawCheck(c); return err }) {
		return
	}
	shard, shards := c48Shard()
	sub := "grid"
	if shards > 1 {
		sub = fmt.Sprintf("grid.s%02d", shard)
	}
	skips := []uint8{0, 1, 255}
	ks := []uint32{0, 1, 15, 16, 0xffffefff, 0xfffff000, 0xfffff001, 0xfffff004, 0xfffff008, 0xfffff00c, 0xfffff010,
		0xfffff014, 0xfffff018, 0xfffff01c, 0xfffff020, 0xfffff024, 0xfffff028, 0xfffff02c, 0xfffff030, 0xfffff034,
		0xfffff038, 0xfffff03c, 0xffffffff, 0x9e3779b9, 0x12345678}
	denseLo, denseHi := uint32(64), uint32(0xfffff000-64)
	if vp.Thorough() {
		skips = []uint8{0, 1, 2, 3, 127, 128, 254, 255}
		ks = append(append([]uint32{}, c48Ks...), 0x9e3779b9, 0x12345678, 0xdeadbeef, 0x00000100, 0x00001000, 0xfffff7ff, 0xfffff800)
		for k := uint32(4); k < 64; k++ {
			ks = append(ks, k, 0xfffff000+k)
		}
		denseLo, denseHi = 4096, 0xffffe000
	}
	active := c48Active()
	vp.RunEnum(t, "C48", sub, true, func(e *vp.Enum) {
		excl := map[string]int{}
		samples := 0
		eval := func(c c48Raw) {
			if k := c48RawKnown(c); k != "" && active[k] {
				excl[k]++
				return
			}
			name, err := c48RawCheck(c)
			if err != nil {
				e.Fail(c, err)
				return
			}
			if name == "" {
				e.Eval(false, "raw:unrecognised", nil)
				return
			}
			nt := c.K != 0 || c.Jt != 0 || c.Jf != 0
			var s func() any
			if nt && samples < 5 {
				samples++
				s = func() any { return c }
			}
			e.Eval(nt, "raw->"+name, s)
		}
		for op := shard; op < 1<<16 && !e.Failed(); op += shards {
			for _, jt := range skips {
				for _, jf := range skips {
					for _, k := range ks {
						eval(c48Raw{Op: uint16(op), Jt: jt, Jf: jf, K: k})
					}
				}
			}
		}
		// dense K sweep for the one-byte opcodes: [0,denseLo] and [denseHi,2^32)
		for op := shard; op < 256 && !e.Failed(); op += shards {
			for _, j := range [][2]uint8{{0, 0}, {0, 7}, {7, 0}, {3, 5}} {
				for k := uint32(0); k <= denseLo; k++ {
					eval(c48Raw{Op: uint16(op), Jt: j[0], Jf: j[1], K: k})
				}
				for k := denseHi; k != 0; k++ {
					eval(c48Raw{Op: uint16(op), Jt: j[0], Jf: j[1], K: k})
				}
			}
		}
		// every (Jt,Jf) pair for the one-byte jump-class opcodes
		jk := []uint32{1}
		if vp.Thorough() {
			jk = []uint32{0, 1, 0xfffff004, 0xffffffff}
		}
		for op := 5 + 8*shard; op < 256 && !e.Failed(); op += 8 * shards {
			for j := 0; j < 1<<16; j++ {
				for _, k := range jk {
					eval(c48Raw{Op: uint16(op), Jt: uint8(j >> 8), Jf: uint8(j), K: k})
				}
			}
		}
		c48NoteExcluded(e, sub, excl)
	})
}

// ---------------------------------------------------------------- typed direction

// c48TypedCheck returns (accepted, violation).
func c48TypedCheck(c bpfIns) (bool, error) {
	x := c.build()
	if x == nil {
		return false, nil
	}
	raw, err := x.Assemble()
	if err != nil {
		return false, nil
	}
	d := raw.Disassemble()
	if d != x {
		return true, fmt.Errorf("%#v assembles to %s, which disassembles to %#v", x, c48Fmt(raw), d)
	}
	// the package-level functions over slices are the same mapping
	raws, err := Assemble([]Instruction{x, x})
	if err != nil || len(raws) != 2 || raws[0] != raw || raws[1] != raw {
		return true, fmt.Errorf("Assemble([]Instruction{x, x}) = %v, %v for x = %#v, but x.Assemble() = %s", raws, err, x, c48Fmt(raw))
	}
	if ds, all := Disassemble(raws); len(ds) != 2 || ds[0] != x || ds[1] != x || !all {
		return true, fmt.Errorf("Disassemble(Assemble([]Instruction{x, x})) = %#v, allDecoded=%v for x = %#v", ds, all, x)
	}
	return true, nil
}

func c48PositiveTest(op uint16) bool { return op == 0 || op == 2 || op == 4 || op == 6 }

// c48TypedDefined reports whether every enum-typed field of the case holds a defined
// value (registers A/X, the ten ALUOps, the eight JumpTests, sizes 1/2/4, slots 0-15,
// the sixteen Extensions).
func c48TypedDefined(c bpfIns) bool {
	switch c.Kind {
	case "LoadConstant":
		return c.Reg <= 1
	case "LoadScratch", "StoreScratch":
		return c.Reg <= 1 && c.N >= 0 && c.N <= 15
	case "LoadAbsolute", "LoadIndirect":
		return c.N == 1 || c.N == 2 || c.N == 4
	case "LoadExtension":
		return bpfIsDefExt(c.N)
	case "ALUOpConstant", "ALUOpX":
		return bpfIsDefALUOp(c.Op)
	case "JumpIf", "JumpIfX":
		return c.Op <= 7
	}
	return true
}

func c48TypedKnown(c bpfIns) string {
	switch c.Kind {
	case "JumpIf", "JumpIfX":
		if c.Op > 7 {
			return ""
		}
		// the encoding has four tests and (jt,jf); Disassemble picks the negated test
		// iff jt == 0, so the other spelling of the same raw instruction never returns
		if pos := c48PositiveTest(c.Op); pos && c.T == 0 || !pos && c.F != 0 {
			return "c48-typed-jump-alias"
		}
	case "LoadAbsolute":
		if c.N == 4 && c.K >= 0xfffff000 {
			return "c48-typed-loadabs-ext-range"
		}
		if (c.N == 1 || c.N == 2) && c.K >= 0xfffff000 {
			return "c48-ext-width" // same defect as in the raw direction
		}
	case "ALUOpConstant", "ALUOpX":
		if !bpfIsDefALUOp(c.Op) {
			return "c48-typed-undefined-aluop"
		}
	case "LoadExtension":
		if c.N < 0 || c.N > 0xfff {
			return "c48-typed-extension-out-of-range"
		}
	}
	return ""
}

func c48TypedProp(c bpfIns, r *vp.Rec) error {
	ok, err := c48TypedCheck(c)
	if err != nil {
		return err
	}
	def := c48TypedDefined(c)
	if !ok {
		if def {
			r.Discard("Assemble rejected a defined value")
		} else {
			r.Discard("Assemble rejected an undefined enum value")
		}
		return nil
	}
	if !def {
		r.Class("typed:undefined-enum-accepted-and-round-trips")
	}
	r.Class("typed:" + c.Kind)
	if c.K != 0 || c.T != 0 || c.F != 0 || c.N != 0 {
		r.NonTrivial()
	}
	return nil
}

var c48Kinds = []string{"LoadConstant", "LoadScratch", "LoadAbsolute", "LoadIndirect", "LoadMemShift", "LoadExtension",
	"StoreScratch", "ALUOpConstant", "ALUOpX", "NegateA", "Jump", "JumpIf", "JumpIfX", "RetA", "RetConstant", "TAX", "TXA"}

func c48TypedGen(t *rapid.T) bpfIns {
	c := bpfIns{Kind: rapid.SampledFrom(c48Kinds).Draw(t, "kind")}
	undef := rapid.IntRange(0, 9).Draw(t, "undef") == 0
	u16 := func(def []uint16, label string) uint16 {
		if undef {
			return rapid.OneOf(rapid.SampledFrom([]uint16{0x80, 0xb0, 0xf0, 1, 2, 8, 9, 0x100, 0x110, 0xffff}), rapid.Uint16()).Draw(t, label+"U")
		}
		return rapid.SampledFrom(def).Draw(t, label)
	}
	i64 := func(def []int64, bad []int64, label string) int64 {
		if undef {
			return rapid.OneOf(rapid.SampledFrom(bad), rapid.Int64Range(-70000, 70000), rapid.Int64()).Draw(t, label+"U")
		}
		return rapid.SampledFrom(def).Draw(t, label)
	}
	k := func() uint32 {
		switch rapid.IntRange(0, 3).Draw(t, "kKind") {
		case 0:
			return rapid.Uint32().Draw(t, "k")
		case 1:
			return 0xfffff000 + uint32(rapid.IntRange(-8, 0xfff).Draw(t, "kext"))
		}
		return rapid.SampledFrom(c48Ks).Draw(t, "kb")
	}
	skip := rapid.OneOf(rapid.SampledFrom([]uint8{0, 0, 1, 2, 255}), rapid.Uint8())
	slots := []int64{0, 1, 2, 3, 4, 5, 6, 7, 8, 9, 10, 11, 12, 13, 14, 15}
	badSlots := []int64{-1, 16, 17, 1 << 32, 1<<32 + 1, -1 << 63}
	switch c.Kind {
	case "LoadConstant":
		c.Reg = u16([]uint16{0, 1}, "reg")
		c.K = k()
	case "LoadScratch", "StoreScratch":
		c.Reg = u16([]uint16{0, 1}, "reg")
		c.N = i64(slots, badSlots, "slot")
	case "LoadAbsolute", "LoadIndirect":
		c.N = i64(bpfDefSizes, []int64{0, 3, 8, -1, 1 << 32, 1<<32 + 4}, "size")
		c.K = k()
	case "LoadMemShift", "Jump", "RetConstant":
		c.K = k()
	case "LoadExtension":
		c.N = i64(bpfDefExts, []int64{2, 3, 5, 64, 0xfff, 0x1000, 0x1001, -1, -4, 1 << 32, 1<<32 + 4, 1<<32 - 0x1000}, "ext")
	case "ALUOpConstant":
		c.Op = u16(bpfDefALUOps, "aluop")
		c.K = k()
	case "ALUOpX":
		c.Op = u16(bpfDefALUOps, "aluop")
	case "JumpIf":
		c.Op = u16(bpfDefJumpTest, "test")
		c.K = k()
		c.T, c.F = skip.Draw(t, "t"), skip.Draw(t, "f")
	case "JumpIfX":
		c.Op = u16(bpfDefJumpTest, "test")
		c.T, c.F = skip.Draw(t, "t"), skip.Draw(t, "f")
	}
	return c
}

func TestVP_C48_typed(t *testing.T) {
	vp.Run(t, vp.Spec[bpfIns]{ID: "C48", Sub: "typed", Gen: c48TypedGen, Prop: c48TypedProp, Known: c48TypedKnown})
}

// TestVP_C48_typedgrid enumerates every instruction type with every defined enum value,
// every (SkipTrue, SkipFalse) pair for the conditional jumps, and the K grid.
func TestVP_C48_typedgrid(t *testing.T) {
	if c48ReplayEnum(t, "typedgrid", func(c bpfIns) error { _, err := c48TypedCheck(c); return err }) {
		return
	}
	shard, shards := c48Shard()
	if shard != 0 {
		t.Skip("the typed enumeration runs in shard 0 only")
	}
	_ = shards
	active := c48Active()
	ks := c48Ks
	vp.RunEnum(t, "C48", "typedgrid", true, func(e *vp.Enum) {
		excl := map[string]int{}
		samples := 0
		eval := func(c bpfIns) {
			if e.Failed() {
				return
			}
			if k := c48TypedKnown(c); k != "" && active[k] {
				excl[k]++
				return
			}
			ok, err := c48TypedCheck(c)
			if err != nil {
				e.Fail(c, err)
				return
			}
			if !ok {
				e.Fail(c, fmt.Errorf("Assemble rejected the defined value %#v", c.build()))
				return
			}
			nt := c.K != 0 || c.T != 0 || c.F != 0 || c.N != 0
			var s func() any
			if nt && samples < 5 {
				samples++
				s = func() any { return c }
			}
			e.Eval(nt, "typed:"+c.Kind, s)
		}
		for _, kind := range []string{"NegateA", "RetA", "TAX", "TXA"} {
			eval(bpfIns{Kind: kind})
		}
		for reg := uint16(0); reg <= 1; reg++ {
			for n := int64(0); n <= 15; n++ {
				eval(bpfIns{Kind: "LoadScratch", Reg: reg, N: n})
				eval(bpfIns{Kind: "StoreScratch", Reg: reg, N: n})
			}
		}
		for n := int64(0); n <= 0xfff; n++ { // every extension number the K encoding can carry
			eval(bpfIns{Kind: "LoadExtension", N: n})
		}
		for _, op := range bpfDefALUOps {
			eval(bpfIns{Kind: "ALUOpX", Op: op})
		}
		kloop := func(f func(k uint32)) {
			for _, k := range ks {
				f(k)
			}
			for k := uint32(0xfffff000 - 16); k != 0; k++ {
				f(k)
			}
		}
		kloop(func(k uint32) {
			eval(bpfIns{Kind: "LoadConstant", Reg: 0, K: k})
			eval(bpfIns{Kind: "LoadConstant", Reg: 1, K: k})
			for _, sz := range bpfDefSizes {
				eval(bpfIns{Kind: "LoadAbsolute", N: sz, K: k})
				eval(bpfIns{Kind: "LoadIndirect", N: sz, K: k})
			}
			eval(bpfIns{Kind: "LoadMemShift", K: k})
			eval(bpfIns{Kind: "Jump", K: k})
			eval(bpfIns{Kind: "RetConstant", K: k})
			for _, op := range bpfDefALUOps {
				eval(bpfIns{Kind: "ALUOpConstant", Op: op, K: k})
			}
		})
		for _, test := range bpfDefJumpTest {
			for tf := 0; tf < 1<<16; tf++ {
				eval(bpfIns{Kind: "JumpIfX", Op: test, T: uint8(tf >> 8), F: uint8(tf)})
				for _, k := range []uint32{0, 1, 0x80000000, 0xfffff004, 0xffffffff} {
					eval(bpfIns{Kind: "JumpIf", Op: test, K: k, T: uint8(tf >> 8), F: uint8(tf)})
				}
			}
		}
		c48NoteExcluded(e, "typedgrid", excl)
	})
}

// TestC48Debug (development aid, not registered): compares the known-finding
// predicates with the actual failures over the whole quick grid.
func TestC48Debug(t *testing.T) {
	if os.Getenv("C48_DEBUG") == "" {
		t.Skip()
	}
	type agg struct {
		fail, pass, passRaw int
		ex                  string
	}
	m := map[string]*agg{}
	get := func(k string) *agg {
		if m[k] == nil {
			m[k] = &agg{}
		}
		return m[k]
	}
	eval := func(c c48Raw) {
		k := c48RawKnown(c)
		name, err := c48RawCheck(c)
		a := get(k)
		switch {
		case err != nil:
			a.fail++
			if a.ex == "" || k == "" && a.fail < 20 {
				a.ex += err.Error() + "\n"
			}
		case name == "":
			a.passRaw++
		default:
			a.pass++
			if k != "" && a.pass < 5 {
				a.ex += "PASSING: " + fmt.Sprint(c) + "\n"
			}
		}
	}
	for op := 0; op < 1<<16; op++ {
		for _, jt := range []uint8{0, 1, 255} {
			for _, jf := range []uint8{0, 1, 255} {
				for _, k := range c48Ks {
					eval(c48Raw{Op: uint16(op), Jt: jt, Jf: jf, K: k})
				}
			}
		}
	}
	for k, a := range m {
		fmt.Printf("RAW key=%q fail=%d pass-typed=%d pass-raw=%d\n%s", k, a.fail, a.pass, a.passRaw, a.ex)
	}
	m = map[string]*agg{}
	rapid.Check(t, func(rt *rapid.T) {
		c := c48TypedGen(rt)
		k := c48TypedKnown(c)
		ok, err := c48TypedCheck(c)
		a := get(k)
		switch {
		case err != nil:
			a.fail++
			if a.ex == "" || k == "" && a.fail < 20 {
				a.ex += err.Error() + "\n"
			}
		case !ok:
			a.passRaw++
		default:
			a.pass++
			if k != "" && a.pass < 5 {
				a.ex += "PASSING: " + fmt.Sprintf("%+v", c) + "\n"
			}
		}
	})
	for k, a := range m {
		fmt.Printf("TYPED key=%q fail=%d pass=%d rejected=%d\n%s", k, a.fail, a.pass, a.passRaw, a.ex)
	}
}
