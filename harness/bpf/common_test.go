package bpf

// Shared by the C48 and C49 harnesses: a plain-data (JSON round-trippable) form of
// one typed BPF instruction, and the lists of *defined* enum values. The numeric
// values below are written from the classic BPF encoding / the exported constants,
// not from the unexported tables in constants.go.

type bpfIns struct {
	Kind string `json:"kind"`
	Reg  uint16 `json:"reg,omitempty"` // Dst (loads) / Src (store)
	N    int64  `json:"n,omitempty"`   // scratch slot, load Size, or Extension number
	Op   uint16 `json:"op,omitempty"`  // ALUOp or JumpTest
	K    uint32 `json:"k,omitempty"`   // Val / Off / Skip
	T    uint8  `json:"t,omitempty"`   // SkipTrue
	F    uint8  `json:"f,omitempty"`   // SkipFalse
}

// build returns the typed instruction (nil for an unknown kind).
func (x bpfIns) build() Instruction {
	switch x.Kind {
	case "LoadConstant":
		return LoadConstant{Dst: Register(x.Reg), Val: x.K}
	case "LoadScratch":
		return LoadScratch{Dst: Register(x.Reg), N: int(x.N)}
	case "LoadAbsolute":
		return LoadAbsolute{Off: x.K, Size: int(x.N)}
	case "LoadIndirect":
		return LoadIndirect{Off: x.K, Size: int(x.N)}
	case "LoadMemShift":
		return LoadMemShift{Off: x.K}
	case "LoadExtension":
		return LoadExtension{Num: Extension(x.N)}
	case "StoreScratch":
		return StoreScratch{Src: Register(x.Reg), N: int(x.N)}
	case "ALUOpConstant":
		return ALUOpConstant{Op: ALUOp(x.Op), Val: x.K}
	case "ALUOpX":
		return ALUOpX{Op: ALUOp(x.Op)}
	case "NegateA":
		return NegateA{}
	case "Jump":
		return Jump{Skip: x.K}
	case "JumpIf":
		return JumpIf{Cond: JumpTest(x.Op), Val: x.K, SkipTrue: x.T, SkipFalse: x.F}
	case "JumpIfX":
		return JumpIfX{Cond: JumpTest(x.Op), SkipTrue: x.T, SkipFalse: x.F}
	case "RetA":
		return RetA{}
	case "RetConstant":
		return RetConstant{Val: x.K}
	case "TAX":
		return TAX{}
	case "TXA":
		return TXA{}
	}
	return nil
}

var (
	bpfDefALUOps   = []uint16{0x00, 0x10, 0x20, 0x30, 0x40, 0x50, 0x60, 0x70, 0x90, 0xa0} // add sub mul div or and lsh rsh mod xor
	bpfDefJumpTest = []uint16{0, 1, 2, 3, 4, 5, 6, 7}                                     // eq ne gt lt ge le set notset
	bpfDefExts     = []int64{1, 0, 4, 52, 8, 12, 16, 20, 24, 28, 32, 36, 44, 48, 60, 56}
	bpfDefSizes    = []int64{1, 2, 4}
)

func bpfIsDefALUOp(v uint16) bool {
	for _, d := range bpfDefALUOps {
		if d == v {
			return true
		}
	}
	return false
}

func bpfIsDefExt(v int64) bool {
	for _, d := range bpfDefExts {
		if d == v {
			return true
		}
	}
	return false
}

// bpfTypeName names the dynamic type of an instruction without reflection.
func bpfTypeName(i Instruction) string {
	switch i.(type) {
	case RawInstruction:
		return "RawInstruction"
	case LoadConstant:
		return "LoadConstant"
	case LoadScratch:
		return "LoadScratch"
	case LoadAbsolute:
		return "LoadAbsolute"
	case LoadIndirect:
		return "LoadIndirect"
	case LoadMemShift:
		return "LoadMemShift"
	case LoadExtension:
		return "LoadExtension"
	case StoreScratch:
		return "StoreScratch"
	case ALUOpConstant:
		return "ALUOpConstant"
	case ALUOpX:
		return "ALUOpX"
	case NegateA:
		return "NegateA"
	case Jump:
		return "Jump"
	case JumpIf:
		return "JumpIf"
	case JumpIfX:
		return "JumpIfX"
	case RetA:
		return "RetA"
	case RetConstant:
		return "RetConstant"
	case TAX:
		return "TAX"
	case TXA:
		return "TXA"
	case nil:
		return "nil"
	}
	return "other"
}
