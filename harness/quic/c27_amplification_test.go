package quic

// C27: until a QUIC server has validated a client's address, the total size of the
// datagrams it sends to that address never exceeds three times the total size of the
// datagrams it has received from that address.
//
// One server Endpoint (the repository's testEndpoint with a harness-owned packetConn
// that records every emitted datagram with its destination address). The harness plays
// the client: Initial datagrams of drawn size (padded to 1200-1500, or shorter than 1200,
// which the server must ignore), carrying the complete ClientHello, its head, its tail,
// no CRYPTO data, or garbage; byte-identical duplicates; datagrams from a second
// (spoofed) source address; undecryptable datagrams; ACKs for the server's Initial
// packets or none at all, so that PTOs fire while fake time advances; with
// RequireAddressValidation the Retry exchange (no token, corrupted token, token replayed
// from the wrong address, valid token).
//
// Oracle, evaluated inside packetConn.Write, i.e. at every datagram the endpoint emits:
// for its destination address a, while a is not validated in the model,
//	Σ bytes sent to a (including this datagram) <= 3 * Σ bytes received from a.
// Model of "validated" (RFC 9000 8.1), conservative: a becomes validated the moment
// the harness sends, from a, a correctly protected Handshake packet or an Initial
// carrying an unmodified token from a Retry the server sent to a. From then on nothing
// is asserted for a.

import (
	"context"
	"crypto/tls"
	"encoding/json"
	"fmt"
	"net/netip"
	"os"
	"path/filepath"
	"sync"
	"testing"
	"testing/synctest"
	"time"

	"pgregory.net/rapid"
	"verif/vp"
)

type c27Step struct {
	Kind   string `json:"kind"`             // initial | junk | ack | advance | handshake
	Size   int    `json:"size,omitempty"`   // initial/junk/ack: datagram size (Initials are padded up to it)
	Crypto string `json:"crypto,omitempty"` // initial: full | head | tail | none | garbage
	Dup    bool   `json:"dup,omitempty"`    // initial: resend the previous Initial datagram byte-identically
	Spoof  bool   `json:"spoof,omitempty"`  // initial/junk: sent from the second source address
	Token  string `json:"token,omitempty"`  // initial, Retry mode: "" (none) | valid | corrupt
	Form   int    `json:"form,omitempty"`   // junk: 0 short header for the conn, 1 Handshake-type garbage for the conn, 2 short header, unknown connection ID
	Full   bool   `json:"full,omitempty"`   // handshake: carry the client's Finished (else PING)
	N      int    `json:"n,omitempty"`      // advance: number of consecutive timer expirations to wait for
	// initial: several packets coalesced in the one datagram. split: the ClientHello over
	// two Initial packets; ping: CoN extra PING-only Initial packets before the real one;
	// hsbefore/hsafter: CoN Handshake-type long-header packets the server has no keys for
	// (or cannot decrypt) before/after the Initial; 0rtt: CoN 0-RTT-type packets after it.
	Co  string `json:"co,omitempty"`
	CoN int    `json:"con,omitempty"`
	// initial: only the first Trunc bytes of the datagram arrive (a truncated packet
	// still has a parseable long header from about 20 bytes on)
	Trunc int `json:"trunc,omitempty"`
}

type c27Case struct {
	Retry bool      `json:"retry"` // Config.RequireAddressValidation
	Steps []c27Step `json:"steps"`
}

func c27Gen(t *rapid.T) c27Case {
	c := c27Case{Retry: rapid.IntRange(0, 3).Draw(t, "retry") == 0}
	size := rapid.OneOf(
		rapid.IntRange(1200, 1500),
		rapid.IntRange(1200, 1500),
		rapid.SampledFrom([]int{1200, 1201, 1242, 1243, 1300, 1472, 1500}),
		rapid.SampledFrom([]int{1, 100, 600, 1199}),
	)
	step := rapid.Custom(func(t *rapid.T) c27Step {
		k := rapid.IntRange(0, 99).Draw(t, "k")
		switch {
		case k < 40:
			s := c27Step{Kind: "initial", Size: size.Draw(t, "size"),
				Crypto: rapid.SampledFrom([]string{"full", "full", "full", "full", "head", "tail", "none", "none", "garbage"}).Draw(t, "crypto"),
				Dup:    rapid.IntRange(0, 4).Draw(t, "dup") == 0,
				Spoof:  rapid.IntRange(0, 3).Draw(t, "spoof") == 0,
			}
			if c.Retry {
				s.Token = rapid.SampledFrom([]string{"", "valid", "valid", "corrupt"}).Draw(t, "token")
			}
			if rapid.IntRange(0, 7).Draw(t, "truncate") == 0 {
				s.Trunc = rapid.SampledFrom([]int{7, 12, 20, 24, 26, 27, 30, 40, 100, 600}).Draw(t, "trunc")
			}
			if rapid.IntRange(0, 2).Draw(t, "coalesce") == 0 {
				s.Co = rapid.SampledFrom([]string{"split", "ping", "ping", "hsbefore", "hsafter", "hsafter", "0rtt"}).Draw(t, "co")
				s.CoN = rapid.IntRange(1, 3).Draw(t, "con")
			}
			return s
		case k < 50:
			return c27Step{Kind: "junk", Size: rapid.IntRange(25, 1400).Draw(t, "size"), Form: rapid.IntRange(0, 2).Draw(t, "form"),
				Spoof: rapid.IntRange(0, 2).Draw(t, "spoof") == 0}
		case k < 57:
			return c27Step{Kind: "ack", Size: size.Draw(t, "size")}
		case k < 95:
			return c27Step{Kind: "advance", N: rapid.IntRange(1, 4).Draw(t, "n")}
		default:
			return c27Step{Kind: "handshake", Full: rapid.Bool().Draw(t, "full")}
		}
	})
	minLen := rapid.SampledFrom([]int{1, 4, 8, 16}).Draw(t, "minlen")
	c.Steps = rapid.SliceOfN(step, minLen, 40).Draw(t, "steps")
	return c
}

// c27Net is the endpoint's packetConn: the repository's testEndpointUDPConn plus
// per-address byte accounting and the oracle.
type c27Net struct {
	te *testEndpoint

	mu        sync.Mutex
	recv      map[netip.AddrPort]int
	sent      map[netip.AddrPort]int
	validated map[netip.AddrPort]bool
	out       []c27Out // emitted datagrams not yet looked at by the script
	emitted   int      // datagrams emitted to unvalidated addresses
	viol      error
	violPad   bool // the first violation has the signature of finding c27-initial-padding-ignores-limit
}

type c27Out struct {
	addr netip.AddrPort
	b    []byte
}

func (n *c27Net) Close() error              { return (*testEndpointUDPConn)(n.te).Close() }
func (n *c27Net) LocalAddr() netip.AddrPort { return (*testEndpointUDPConn)(n.te).LocalAddr() }
func (n *c27Net) Read(f func(*datagram))    { (*testEndpointUDPConn)(n.te).Read(f) }
func (n *c27Net) Write(d datagram) error {
	n.mu.Lock()
	a := d.peerAddr
	n.sent[a] += len(d.b)
	if !n.validated[a] {
		n.emitted++
		if n.sent[a] > 3*n.recv[a] && n.viol == nil {
			// Signature of the known finding: a datagram beginning with an Initial
			// packet, exactly 1200 bytes long, emitted while 0 < allowance < 1200.
			allowance := 3*n.recv[a] - (n.sent[a] - len(d.b))
			n.violPad = len(d.b) == paddedInitialDatagramSize && isLongHeader(d.b[0]) && getPacketType(d.b) == packetTypeInitial &&
				allowance > 0 && allowance < paddedInitialDatagramSize
			n.viol = fmt.Errorf("datagram of %d bytes (first byte %#02x) to %v, whose address is not validated, brings the total sent to it to %d bytes; received from it: %d bytes (3x = %d)",
				len(d.b), d.b[0], a, n.sent[a], n.recv[a], 3*n.recv[a])
		}
	}
	n.out = append(n.out, c27Out{a, append([]byte(nil), d.b...)})
	n.mu.Unlock()
	return (*testEndpointUDPConn)(n.te).Write(d)
}

func c27Run(t *testing.T, c c27Case, r *vp.Rec) (verdict error, padSig bool) {
	net := &c27Net{recv: map[netip.AddrPort]int{}, sent: map[netip.AddrPort]int{}, validated: map[netip.AddrPort]bool{}}
	te := &testEndpoint{
		t:     t,
		recvc: make(chan *datagram),
		idlec: make(chan struct{}),
		conns: make(map[*Conn]*testConn),
	}
	net.te = te
	var err error
	te.e, err = newEndpoint(net, &Config{
		TLSConfig:                newTestTLSConfig(serverSide),
		RequireAddressValidation: c.Retry,
		StatelessResetKey:        testStatelessResetKey,
	}, (*testEndpointHooks)(te))
	if err != nil {
		r.Discard("newEndpoint: " + err.Error()) // harness setup problem, not a verdict
		return nil, false
	}
	t.Cleanup(te.cleanup)

	addrA, addrB := testClientAddr, netip.MustParseAddrPort("10.0.0.2:8000")
	srcID, origDst := testPeerConnID(0), testLocalConnID(-1)
	params := defaultTransportParameters()
	params.initialSrcConnID = srcID
	hello := initialClientCrypto(t, te, params)
	ctx := context.Background()

	var tc *testConn
	var retry *retryPacket     // latest Retry received at address A
	var connRetry *retryPacket // the Retry whose token created the conn
	var lastInitial []byte
	lastIntact := false
	initialNum, handshakeNum := packetNumber(0), packetNumber(0)
	flightSent := false // the server has emitted something for the conn
	ptoSends, pressure := false, false

	connLive := func() bool {
		return tc != nil && tc.conn.runOnLoop(ctx, func(time.Time, *Conn) {}) == nil
	}
	// look processes what the endpoint emitted since the last call.
	look := func() {
		if tc == nil && len(te.acceptQueue) > 0 {
			tc = te.accept()
			connRetry = retry // nil without RequireAddressValidation
		}
		for te.read() != nil { // keep the testEndpoint's own queue short
		}
		net.mu.Lock()
		out := net.out
		net.out = nil
		net.mu.Unlock()
		for _, o := range out {
			if len(o.b) > 0 && isLongHeader(o.b[0]) && getPacketType(o.b) == packetTypeRetry {
				r.Class("retry-sent")
				if p, ok := parseRetryPacket(o.b, origDst); ok && o.addr == addrA && tc == nil {
					retry = &p
				}
			}
			if tc != nil && o.addr == tc.conn.peerAddr {
				flightSent = true
			}
		}
	}
	inject := func(addr netip.AddrPort, b []byte) {
		net.mu.Lock()
		net.recv[addr] += len(b)
		net.mu.Unlock()
		te.write(&datagram{b: append([]byte(nil), b...), peerAddr: addr})
		look()
	}
	validate := func(addr netip.AddrPort, how string) {
		net.mu.Lock()
		if !net.validated[addr] {
			r.Class(how)
		}
		net.validated[addr] = true
		net.mu.Unlock()
	}
	pad := func(b []byte, size int) []byte {
		for len(b) < size {
			b = append(b, 0)
		}
		return b
	}
	filler := func(b []byte, size, seed int) []byte {
		for i := len(b); i < size; i++ {
			b = append(b, byte(i*7+seed*13+1))
		}
		return b
	}

	for si, st := range c.Steps {
		if tc != nil && !connLive() {
			r.Class("conn-gone")
			break
		}
		addr := addrA
		if st.Spoof {
			addr = addrB
			r.Class("second-source-address")
		}
		unvalidated := !net.validated[addr]
		switch st.Kind {
		case "initial":
			var b []byte
			intact := false // carries an unmodified Retry token issued to address A
			if st.Dup && lastInitial != nil {
				b, intact = lastInitial, lastIntact
				r.Class("initial-duplicate")
				if flightSent && unvalidated {
					pressure = true
				}
			} else {
				var frames []debugFrame
				switch st.Crypto {
				case "full":
					frames = []debugFrame{debugFrameCrypto{data: hello}}
				case "head":
					frames = []debugFrame{debugFrameCrypto{data: hello[:len(hello)/2]}}
				case "tail":
					frames = []debugFrame{debugFrameCrypto{off: int64(len(hello) / 2), data: hello[len(hello)/2:]}}
				case "garbage":
					frames = []debugFrame{debugFrameCrypto{data: filler(nil, 60, si)}}
				default:
					frames = []debugFrame{debugFramePing{}}
				}
				p := &testPacket{
					ptype:     packetTypeInitial,
					num:       initialNum,
					version:   quicVersion1,
					srcConnID: srcID,
					dstConnID: origDst,
					frames:    frames,
				}
				initialNum++
				if tc != nil && retry != connRetry {
					retry = connRetry // keep talking to the one connection the harness follows
				}
				if c.Retry && retry != nil && st.Token != "" {
					p.dstConnID = retry.srcConnID
					p.token = append([]byte(nil), retry.token...)
					if st.Token == "corrupt" {
						p.token[len(p.token)-1] ^= 1
						r.Class("token-corrupt")
					} else {
						intact = true
					}
				}
				// The datagram: the Initial packet, possibly coalesced with others.
				ptc := te.connForDestination(p.dstConnID)
				extra := func(frames ...debugFrame) *testPacket {
					q := *p
					q.num, q.frames = initialNum, frames
					initialNum++
					return &q
				}
				keyless := func(typ byte, i int) []byte {
					k := []byte{headerFormLong | fixedBit | typ, 0, 0, 0, 1, byte(len(p.dstConnID))}
					k = append(k, p.dstConnID...)
					k = append(k, byte(len(srcID)))
					k = append(k, srcID...)
					k = append(k, 0x40, 30) // Length: 30 bytes of packet number and payload
					return filler(k, len(k)+30, si+i)
				}
				switch st.Co {
				case "split":
					if st.Crypto == "full" {
						p.frames = []debugFrame{debugFrameCrypto{data: hello[:len(hello)/2]}}
						b = encodeTestPacket(t, ptc, p, 0)
						b = append(b, encodeTestPacket(t, ptc, extra(debugFrameCrypto{off: int64(len(hello) / 2), data: hello[len(hello)/2:]}), 0)...)
					} else {
						b = encodeTestPacket(t, ptc, p, 0)
						b = append(b, encodeTestPacket(t, ptc, extra(debugFramePing{}), 0)...)
					}
					r.Class("coalesced:initial+initial")
				case "ping":
					real := *p
					p.frames = []debugFrame{debugFramePing{}}
					b = encodeTestPacket(t, ptc, p, 0)
					for i := 1; i < st.CoN; i++ {
						b = append(b, encodeTestPacket(t, ptc, extra(debugFramePing{}), 0)...)
					}
					real.num = initialNum
					initialNum++
					b = append(b, encodeTestPacket(t, ptc, &real, 0)...)
					r.Class("coalesced:initial+initial")
				case "hsbefore":
					for i := 0; i < st.CoN; i++ {
						b = append(b, keyless(longPacketTypeHandshake, i)...)
					}
					b = append(b, encodeTestPacket(t, ptc, p, 0)...)
					r.Class("coalesced:undecryptable-handshake+initial")
				case "hsafter", "0rtt":
					b = encodeTestPacket(t, ptc, p, 0)
					for i := 0; i < st.CoN; i++ {
						if st.Co == "0rtt" {
							b = append(b, keyless(longPacketType0RTT, i)...)
						} else {
							b = append(b, keyless(longPacketTypeHandshake, i)...)
						}
					}
					r.Class("coalesced:initial+undecryptable-long-header")
				default:
					b = encodeTestPacket(t, ptc, p, 0)
				}
				if len(b) < st.Size {
					b = pad(b, st.Size)
				}
				lastInitial, lastIntact = b, intact
			}
			if st.Trunc > 0 && st.Trunc < len(b) {
				b, intact = b[:st.Trunc], false
				r.Class("truncated-initial-datagram")
			}
			// Would the endpoint create a connection for this datagram if its
			// destination connection ID is unknown? (The harness follows one
			// connection only; a second one would reuse the test hooks' connection IDs.)
			creates := len(b) >= paddedInitialDatagramSize && (!c.Retry || (intact && addr == addrA))
			if dcid, _ := dstConnIDForDatagram(b); tc != nil && creates && te.connForDestination(dcid) == nil {
				r.Class("skipped:would-create-a-second-conn")
				continue
			}
			if c.Retry && intact && len(b) >= paddedInitialDatagramSize {
				if addr == addrA {
					validate(addrA, "validated-by-retry-token")
				} else {
					r.Class("token-from-wrong-address")
				}
			}
			if len(b) < paddedInitialDatagramSize {
				r.Class("initial-shorter-than-1200")
				if flightSent && unvalidated {
					pressure = true
				}
			}
			inject(addr, b)
		case "junk":
			var b []byte
			switch {
			case st.Form == 1:
				b = []byte{headerFormLong | fixedBit | longPacketTypeHandshake, 0, 0, 0, 1, byte(len(origDst))}
				b = append(b, origDst...)
				b = append(b, byte(len(srcID)))
				b = append(b, srcID...)
				b = append(b, 0x40|byte((st.Size>>8)&0x3f), byte(st.Size))
			case st.Form == 2 || tc == nil:
				b = append([]byte{fixedBit}, 0xd0, 0x0d, 1, 2, 3, 4, 5, byte(si))
			default:
				b = append([]byte{fixedBit}, testLocalConnID(0)...)
			}
			r.Class("undecryptable-datagram")
			inject(addr, filler(b, st.Size, si))
		case "ack":
			if tc == nil {
				continue
			}
			var next packetNumber
			tc.conn.runOnLoop(ctx, func(now time.Time, cc *Conn) { next = cc.loss.nextNumber(initialSpace) })
			if next == 0 {
				continue
			}
			if tc.conn.connIDState.local[0].seq != -1 {
				continue // the client-chosen connection ID is retired: Initial packets are over
			}
			dst := tc.conn.connIDState.local[0].cid
			p := &testPacket{
				ptype:     packetTypeInitial,
				num:       initialNum,
				version:   quicVersion1,
				srcConnID: srcID,
				dstConnID: dst,
				frames:    []debugFrame{debugFrameAck{ranges: []i64range[packetNumber]{{0, next}}}},
			}
			if connRetry != nil {
				p.token = connRetry.token
			}
			initialNum++
			r.Class("client-acks-server-initial")
			b := encodeTestPacket(t, te.connForDestination(dst), p, 0)
			inject(addrA, pad(b, st.Size))
		case "handshake":
			if tc == nil || !tc.keysHandshake.w.isSet() {
				r.Class("handshake-step-without-keys")
				continue
			}
			dst := tc.conn.connIDState.local[0].cid
			if tc.conn.connIDState.local[0].seq == -1 && len(tc.conn.connIDState.local) > 1 {
				dst = tc.conn.connIDState.local[1].cid
			}
			frames := []debugFrame{debugFramePing{}}
			if st.Full && len(tc.cryptoDataIn[tls.QUICEncryptionLevelHandshake]) > 0 {
				frames = []debugFrame{debugFrameCrypto{data: tc.cryptoDataIn[tls.QUICEncryptionLevelHandshake]}}
			}
			p := &testPacket{
				ptype:     packetTypeHandshake,
				num:       handshakeNum,
				version:   quicVersion1,
				srcConnID: srcID,
				dstConnID: dst,
				frames:    frames,
			}
			handshakeNum++
			validate(addrA, "validated-by-handshake-packet")
			inject(addrA, encodeTestPacket(t, tc, p, 0))
		case "advance":
			net.mu.Lock()
			before := net.emitted
			net.mu.Unlock()
			for i := 0; i < max(st.N, 1); i++ {
				if tc == nil {
					time.Sleep(time.Second)
				} else if !connLive() || !vpAdvance(tc, 70*time.Second) {
					break
				}
				synctest.Wait()
				look()
			}
			net.mu.Lock()
			if net.emitted > before {
				ptoSends = true
			}
			net.mu.Unlock()
		}
		net.mu.Lock()
		viol, violPad := net.viol, net.violPad
		net.mu.Unlock()
		if viol != nil {
			return fmt.Errorf("step %d (%+v): %v", si, st, viol), violPad
		}
		if st.Kind == "handshake" && net.validated[addrA] {
			break // the client's address is validated; nothing left to decide for it
		}
		if tc != nil && connLive() {
			lim := 0
			tc.conn.runOnLoop(ctx, func(now time.Time, cc *Conn) { lim = cc.loss.antiAmplificationLimit })
			if lim < minPacketSize {
				r.Class("server-blocked-at-limit")
			}
		}
	}
	if tc != nil {
		r.Class("conn-created")
	}
	if ptoSends {
		r.Class("timer-driven-send-while-unvalidated")
	}
	if ptoSends || pressure {
		r.NonTrivial()
	}
	return nil, false
}

// c27Eval runs one case in a fresh bubble.
func c27Eval(c c27Case) (err error, rec *vp.Rec, padSig bool) {
	rec = &vp.Rec{}
	err = vp.Bubble(func(bt *testing.T) error {
		e, sig := c27Run(bt, c, rec)
		padSig = sig
		return e
	})
	return err, rec, padSig
}

// c27Last keeps the outcome of the run c27Known made for the case the runner is
// about to hand to the property function, so that each case is executed once.
var c27Last struct {
	key string
	err error
	rec *vp.Rec
}

// c27Known: finding c27-initial-padding-ignores-limit. The class of inputs is
// "the run makes the server emit an ack-eliciting Initial packet while its remaining
// allowance is below 1200 bytes" (conn_send.go pads such a datagram to 1200 bytes
// regardless); that cannot be read off the script, so the predicate is evaluated on
// the run itself: its first violating datagram has exactly that signature.
func c27Known(c c27Case) string {
	b, _ := json.Marshal(c)
	if d := os.Getenv("VP_OUT"); d != "" {
		// the run happens here, so persist the case first (see Spec.CrashFile)
		cur, _ := json.Marshal(map[string]any{"id": "C27", "sub": "", "error": "", "case": json.RawMessage(b)})
		os.WriteFile(filepath.Join(d, "C27.current.json"), cur, 0o644)
	}
	err, rec, padSig := c27Eval(c)
	c27Last.key, c27Last.err, c27Last.rec = string(b), err, rec
	if err != nil && padSig {
		return "c27-initial-padding-ignores-limit"
	}
	return ""
}

func c27Prop(c c27Case, r *vp.Rec) error {
	b, _ := json.Marshal(c)
	if c27Last.rec != nil && c27Last.key == string(b) {
		err := c27Last.err
		*r = *c27Last.rec
		c27Last.rec = nil
		return err
	}
	err, rec, _ := c27Eval(c)
	*r = *rec
	return err
}

func TestVP_C27(t *testing.T) {
	vp.Run(t, vp.Spec[c27Case]{ID: "C27", CrashFile: true, Gen: c27Gen, Known: c27Known, Prop: c27Prop})
}
