package quic

// C21: QUIC stream-count limits are never exceeded.
//
//   - the conn never opens (returns from NewStream / puts on the wire) a stream whose
//     number is at or beyond the largest MAX_STREAMS the peer has sent for the type;
//   - the MAX_STREAMS values it sends never decrease;
//   - at every moment advertised_max <= (#peer streams closed) + configured maximum,
//     so the peer can never hold more than MaxBidiRemoteStreams/MaxUniRemoteStreams
//     streams open at once;
//   - a peer frame that opens a stream at or beyond the advertised limit closes the
//     connection with STREAM_LIMIT_ERROR; one within the limit does not close it.
//
// One Conn driven through the repository's testConn in a synctest bubble (see
// c20_flow_test.go for the shared vpDrain/vpAdvance helpers).

import (
	"context"
	"fmt"
	"testing"
	"testing/synctest"
	"time"

	"pgregory.net/rapid"
	"verif/vp"
)

type c21Step struct {
	Kind string `json:"kind"`
	Uni  bool   `json:"uni,omitempty"`
	N    int64  `json:"n,omitempty"`
	F    string `json:"f,omitempty"` // frame with which the peer touches a stream
	M    int    `json:"m,omitempty"` // latelocal: what the app does next (0 nothing, 1 NewStream with a cancelled context, 2 blocking NewStream)
}

type c21Case struct {
	Server   bool      `json:"server"`
	CfgBidi  int64     `json:"cfg_bidi"` // Config.MaxBidiRemoteStreams as set: 0 = default (100), negative = none
	CfgUni   int64     `json:"cfg_uni"`
	PeerBidi int64     `json:"peer_bidi"` // peer's initial_max_streams_bidi
	PeerUni  int64     `json:"peer_uni"`
	Steps    []c21Step `json:"steps"`
	// Over, if set, is a last step in which the peer uses a stream number at or
	// beyond the advertised limit (it ends the connection, so there is at most one).
	Over *c21Step `json:"over,omitempty"`
}

// frames with which a peer may create (or touch) one of its streams.
// "maxsd" and "stop" address the sending part and are legal on bidirectional streams only.
var c21PeerFrames = []string{"stream", "stream", "streamfin", "reset", "maxsd", "stop", "blocked"}

func c21Gen(t *rapid.T) c21Case {
	cfg := rapid.SampledFrom([]int64{-1, 0, 1, 1, 1, 2, 2, 3, 3, 8, 100, 150})
	peer := rapid.SampledFrom([]int64{0, 0, 1, 1, 3, 100})
	c := c21Case{
		Server:   rapid.Bool().Draw(t, "server"),
		CfgBidi:  cfg.Draw(t, "cfgbidi"),
		CfgUni:   cfg.Draw(t, "cfguni"),
		PeerBidi: peer.Draw(t, "peerbidi"),
		PeerUni:  peer.Draw(t, "peeruni"),
	}
	kinds := []string{
		"open", "open", "open", "open", "open", "openblock", "openblock",
		"peermax", "peermax+", "peermax+", "peermax+", "peermax+", "peermax-",
		"peeropen", "peeropen", "peeropen", "peeropen", "peeropen", "peeropen", "peeruse", "peeruse",
		"fullclose", "fullclose", "fullclose", "fullclose", "openclose", "openclose", "openclose",
		"peerfin", "peerreset", "appclose", "appclose", "appcloseread", "appclosewrite", "appreset",
		"localclose", "localclose", "localclose", "localclose", "localappclose", "localpeerfin",
		"latelocal", "latelocal", "latelocal",
		"ack", "ack", "advance",
	}
	frame := rapid.SampledFrom(c21PeerFrames)
	step := rapid.Custom(func(t *rapid.T) c21Step {
		k := rapid.SampledFrom(kinds).Draw(t, "kind")
		s := c21Step{Kind: k}
		switch k {
		case "ack", "advance":
			return s
		}
		s.Uni = rapid.Bool().Draw(t, "uni")
		switch k {
		case "open":
			s.N = rapid.Int64Range(0, 3).Draw(t, "use") // bit 0: Flush, bit 1: write a byte first
		case "peermax":
			s.N = rapid.OneOf(rapid.Int64Range(0, 12), rapid.SampledFrom([]int64{0, 1, 2, 3, 100, 1 << 20, 1 << 60})).Draw(t, "v")
		case "peermax+":
			s.N = rapid.SampledFrom([]int64{1, 1, 1, 2, 3, 10}).Draw(t, "inc")
		case "peermax-":
			s.N = rapid.Int64Range(0, 5).Draw(t, "dec")
		case "peeropen":
			// distance above the next unopened stream number (clipped to the advertised limit - 1)
			s.N = rapid.SampledFrom([]int64{0, 0, 0, 0, 1, 2, 5, 1 << 40}).Draw(t, "skip")
			s.F = frame.Draw(t, "frame")
		case "peeruse":
			s.N = rapid.Int64Range(0, 200).Draw(t, "num")
			s.F = frame.Draw(t, "frame")
		case "openclose", "localclose":
		case "latelocal":
			s.N = rapid.Int64Range(0, 7).Draw(t, "slot")
			s.F = rapid.SampledFrom([]string{"stream", "reset", "maxsd", "stop"}).Draw(t, "frame")
			s.M = rapid.SampledFrom([]int{0, 1, 1, 2, 2}).Draw(t, "then")
		default: // operations on an accepted peer stream: slot
			s.N = rapid.Int64Range(0, 7).Draw(t, "slot")
		}
		return s
	})
	c.Steps = rapid.SliceOfN(step, 3, 48).Draw(t, "steps")
	if rapid.IntRange(0, 2).Draw(t, "hasover") == 0 {
		c.Over = &c21Step{
			Kind: "peerover",
			Uni:  rapid.Bool().Draw(t, "overuni"),
			N:    rapid.SampledFrom([]int64{0, 0, 0, 1, 7, 1000, 1 << 40}).Draw(t, "beyond"),
			F:    frame.Draw(t, "overframe"),
		}
	}
	return c
}

// c21Known: STREAM_DATA_BLOCKED is the one stream-creating frame (RFC 9000 section 3.2)
// that the conn does not route through the stream-limit check.
func c21Known(c c21Case) string {
	if c.Over != nil && c.Over.F == "blocked" {
		return "c21-streamdatablocked-beyond-limit-ignored"
	}
	return ""
}

type c21Remote struct {
	s        *Stream
	peerDone bool // the peer sent FIN or RESET_STREAM
	connDone bool // the conn sent FIN or RESET_STREAM (bidi)
	counted  bool
}

type c21Async struct {
	uni     bool
	blocked bool
	done    chan struct{}
	s       *Stream
	err     error
}

func c21Effective(v int64) int64 {
	switch {
	case v == 0:
		return 100 // documented default
	case v < 0:
		return 0
	}
	return v
}

func c21Run(t *testing.T, c c21Case, r *vp.Rec) error {
	side := clientSide
	if c.Server {
		side = serverSide
	}
	tc := newTestConn(t, side, func(p *transportParameters) {
		p.initialMaxStreamsBidi = c.PeerBidi
		p.initialMaxStreamsUni = c.PeerUni
		p.initialMaxData = 1 << 20
		p.initialMaxStreamDataBidiLocal = 1 << 20
		p.initialMaxStreamDataBidiRemote = 1 << 20
		p.initialMaxStreamDataUni = 1 << 20
	}, func(cfg *Config) {
		cfg.MaxBidiRemoteStreams = c.CfgBidi
		cfg.MaxUniRemoteStreams = c.CfgUni
		cfg.MaxIdleTimeout = -1
	})
	tc.handshake()
	tc.ignoreFrame(frameTypeAck)
	ctx := canceledContext()
	bctx, cancel := context.WithCancel(context.Background())
	defer func() {
		cancel()
		synctest.Wait()
	}()

	styp := func(uni bool) streamType {
		if uni {
			return uniStream
		}
		return bidiStream
	}

	// --- the peer's view ---
	var cfgEff, peerMax, adv, peerOpened, closedCnt [streamTypeCount]int64
	cfgEff[bidiStream], cfgEff[uniStream] = c21Effective(c.CfgBidi), c21Effective(c.CfgUni)
	peerMax[bidiStream], peerMax[uniStream] = c.PeerBidi, c.PeerUni
	// initial_max_streams_* the conn sent count as its first MAX_STREAMS
	adv[bidiStream] = tc.sentTransportParameters.initialMaxStreamsBidi
	adv[uniStream] = tc.sentTransportParameters.initialMaxStreamsUni
	for _, ty := range []streamType{bidiStream, uniStream} {
		if adv[ty] > cfgEff[ty] {
			return fmt.Errorf("initial_max_streams (%v) = %d exceeds the configured maximum %d", ty, adv[ty], cfgEff[ty])
		}
	}
	remote := map[streamID]*c21Remote{}
	var accepted [streamTypeCount][]*c21Remote
	gotClose, expectClose := false, false
	var closeCode transportError
	closeApp := false
	reAdvertised, refused, refusedThenOpened, blockedReleased, closedAny := false, [streamTypeCount]bool{}, false, false, false

	rem := func(id streamID) *c21Remote {
		x := remote[id]
		if x == nil {
			x = &c21Remote{}
			remote[id] = x
		}
		return x
	}
	count := func(id streamID) {
		x := remote[id]
		if x == nil || x.counted || !x.peerDone {
			return
		}
		if id.streamType() == bidiStream && !x.connDone {
			return
		}
		x.counted = true
		closedCnt[id.streamType()]++
		closedAny = true
	}
	localSeen := map[streamID]bool{} // locally opened streams the peer knows of
	localClosed := false
	checkLocal := func(id streamID, what string) error {
		if id.initiator() != side {
			return nil
		}
		localSeen[id] = true
		if id.num() >= peerMax[id.streamType()] {
			return fmt.Errorf("%s for locally opened stream %v (number %d) although the peer's largest MAX_STREAMS (%v) is %d", what, id, id.num(), id.streamType(), peerMax[id.streamType()])
		}
		return nil
	}
	onFrame := func(fr debugFrame, pt packetType) error {
		switch f := fr.(type) {
		case debugFrameStream:
			if err := checkLocal(f.id, "STREAM frame"); err != nil {
				return err
			}
			if f.id.initiator() != side && f.fin {
				rem(f.id).connDone = true
				count(f.id)
			}
		case debugFrameResetStream:
			if err := checkLocal(f.id, "RESET_STREAM frame"); err != nil {
				return err
			}
			if f.id.initiator() != side {
				rem(f.id).connDone = true
				count(f.id)
			}
		case debugFrameStreamDataBlocked:
			return checkLocal(f.id, "STREAM_DATA_BLOCKED frame")
		case debugFrameMaxStreamData:
			return checkLocal(f.id, "MAX_STREAM_DATA frame")
		case debugFrameStopSending:
			return checkLocal(f.id, "STOP_SENDING frame")
		case debugFrameMaxStreams:
			ty := f.streamType
			if f.max < adv[ty] {
				return fmt.Errorf("MAX_STREAMS (%v) decreased from %d to %d", ty, adv[ty], f.max)
			}
			if f.max > closedCnt[ty]+cfgEff[ty] {
				return fmt.Errorf("MAX_STREAMS (%v) = %d lets the peer hold %d streams open at once (only %d of its streams are closed), configured maximum %d", ty, f.max, f.max-closedCnt[ty], closedCnt[ty], cfgEff[ty])
			}
			if f.max > adv[ty] {
				reAdvertised = true
			}
			adv[ty] = f.max
		case debugFrameConnectionCloseTransport:
			gotClose = true
			closeCode = f.code
		case debugFrameConnectionCloseApplication:
			gotClose = true
			closeApp = true
		}
		return nil
	}
	drain := func() error { return vpDrain(tc, onFrame) }
	if err := drain(); err != nil {
		return err
	}

	var pending []*c21Async
	var locals [streamTypeCount][]*Stream
	var localsClosed [streamTypeCount][]*Stream // closed by the app with everything acked (and the peer's FIN, if bidi)
	gotLocal := func(s *Stream, how string) error {
		s.SetReadContext(ctx)
		s.SetWriteContext(ctx)
		ty := s.id.streamType()
		locals[ty] = append(locals[ty], s)
		if s.id.initiator() != side {
			return fmt.Errorf("%s returned stream %v, which is not locally initiated", how, s.id)
		}
		if s.id.num() >= peerMax[ty] {
			return fmt.Errorf("%s opened stream %v (number %d) although the peer's largest MAX_STREAMS (%v) is %d", how, s.id, s.id.num(), ty, peerMax[ty])
		}
		if refused[ty] {
			refusedThenOpened = true
		}
		return nil
	}
	poll := func() error {
		synctest.Wait()
		keep := pending[:0]
		for _, a := range pending {
			select {
			case <-a.done:
				if a.err == nil {
					if a.blocked {
						blockedReleased = true
					}
					if err := gotLocal(a.s, "a blocked NewStream"); err != nil {
						return err
					}
					a.s.Flush()
				}
			default:
				keep = append(keep, a)
			}
		}
		pending = keep
		return nil
	}
	acceptAll := func() error {
		for {
			s, err := tc.conn.AcceptStream(ctx)
			if err != nil {
				return nil
			}
			s.SetReadContext(ctx)
			s.SetWriteContext(ctx)
			ty := s.id.streamType()
			if s.id.initiator() == side {
				return fmt.Errorf("AcceptStream returned locally initiated stream %v", s.id)
			}
			if s.id.num() >= adv[ty] {
				return fmt.Errorf("AcceptStream returned peer stream %v (number %d) at or beyond the advertised MAX_STREAMS %d", s.id, s.id.num(), adv[ty])
			}
			x := rem(s.id)
			if x.s == nil {
				x.s = s
				accepted[ty] = append(accepted[ty], x)
			}
		}
	}
	// peerFrame sends frame kind f for peer stream id and updates the peer's view.
	peerFrame := func(id streamID, f string) {
		if id.streamType() == uniStream && (f == "maxsd" || f == "stop") {
			f = "stream" // send-side frames are illegal on the peer's own unidirectional streams
		}
		var fr debugFrame
		switch f {
		case "stream":
			fr = debugFrameStream{id: id}
		case "streamfin":
			fr = debugFrameStream{id: id, fin: true}
		case "reset":
			fr = debugFrameResetStream{id: id, code: 1, finalSize: 0}
		case "maxsd":
			fr = debugFrameMaxStreamData{id: id, max: 1 << 20}
		case "stop":
			fr = debugFrameStopSending{id: id, code: 2}
		case "blocked":
			fr = debugFrameStreamDataBlocked{id: id, max: 0}
		}
		tc.writeFrames(packetType1RTT, fr)
		ty := id.streamType()
		if id.num() < adv[ty] {
			if id.num() >= peerOpened[ty] {
				peerOpened[ty] = id.num() + 1
			}
			if f == "streamfin" || f == "reset" {
				rem(id).peerDone = true
				count(id)
			}
		}
	}
	slot := func(st c21Step) *c21Remote {
		l := accepted[styp(st.Uni)]
		if len(l) == 0 {
			return nil
		}
		return l[int(st.N)%len(l)]
	}

	steps := c.Steps
	if c.Over != nil {
		steps = append(steps[:len(steps):len(steps)], *c.Over)
		steps[len(steps)-1].Kind = "peerover"
	}
	for _, st := range steps {
		if gotClose {
			break
		}
		ty := styp(st.Uni)
		switch st.Kind {
		case "open":
			s, err := c21Open(tc.conn, ctx, ty)
			if err != nil {
				refused[ty] = true
				r.Class("local-open-refused")
				break
			}
			if err := gotLocal(s, "NewStream"); err != nil {
				return err
			}
			if st.N&2 != 0 {
				s.Write([]byte{1})
			}
			if st.N&1 != 0 {
				s.Flush()
			}
		case "openblock":
			if len(pending) >= 6 {
				break
			}
			a := &c21Async{uni: st.Uni, done: make(chan struct{})}
			go func() {
				defer close(a.done)
				a.s, a.err = c21Open(tc.conn, bctx, ty)
			}()
			pending = append(pending, a)
			synctest.Wait()
			select {
			case <-a.done:
			default:
				a.blocked = true
				refused[ty] = true
				r.Class("local-open-blocked")
			}
		case "peermax", "peermax+", "peermax-":
			v := st.N
			switch st.Kind {
			case "peermax+":
				v = peerMax[ty] + st.N
			case "peermax-":
				v = max(0, peerMax[ty]-st.N)
			}
			v = min(v, maxStreamsLimit) // larger values are a FRAME_ENCODING_ERROR
			tc.writeFrames(packetType1RTT, debugFrameMaxStreams{streamType: ty, max: v})
			if v > peerMax[ty] {
				peerMax[ty] = v
			} else {
				r.Class("peer-MAX_STREAMS-stale")
			}
		case "peeropen":
			if peerOpened[ty] >= adv[ty] {
				r.Class("peer-at-limit")
				break // no stream number left within the limit
			}
			num := min(peerOpened[ty]+st.N, adv[ty]-1)
			if num == adv[ty]-1 {
				r.Class("peer-opens-last-allowed")
			}
			if num > peerOpened[ty] {
				r.Class("peer-opens-implicitly")
			}
			peerFrame(newStreamID(side.peer(), ty, num), st.F)
		case "peeruse":
			if peerOpened[ty] == 0 {
				break
			}
			peerFrame(newStreamID(side.peer(), ty, st.N%peerOpened[ty]), st.F)
		case "peerover":
			num := adv[ty] + st.N
			expectClose = true
			r.Class("peer-beyond-limit")
			peerFrame(newStreamID(side.peer(), ty, num), st.F)
		case "peerfin":
			if x := slot(st); x != nil {
				peerFrame(x.s.id, "streamfin")
			}
		case "peerreset":
			if x := slot(st); x != nil {
				peerFrame(x.s.id, "reset")
			}
		case "appclose":
			if x := slot(st); x != nil {
				x.s.Close()
			}
		case "appcloseread":
			if x := slot(st); x != nil {
				x.s.CloseRead()
			}
		case "appclosewrite":
			if x := slot(st); x != nil {
				x.s.CloseWrite()
			}
		case "appreset":
			if x := slot(st); x != nil {
				x.s.Reset(3)
			}
		case "fullclose", "openclose":
			x := slot(st)
			if st.Kind == "openclose" || x == nil {
				// the peer opens its next stream, the app accepts it
				if peerOpened[ty] >= adv[ty] {
					r.Class("peer-at-limit")
					break
				}
				id := newStreamID(side.peer(), ty, peerOpened[ty])
				peerFrame(id, "stream")
				if err := acceptAll(); err != nil {
					return err
				}
				if x = remote[id]; x == nil || x.s == nil {
					r.Class("peer-stream-not-delivered") // not a clause of the statement
					break
				}
			}
			peerFrame(x.s.id, "streamfin")
			x.s.Close()
			if err := drain(); err != nil {
				return err
			}
			tc.writeAckForAll()
		case "localclose":
			// the app opens a stream of its own and closes it completely: this must
			// not give the peer any stream credit
			s, err := c21Open(tc.conn, ctx, ty)
			if err != nil {
				// at the peer's limit: the peer grants one more stream first
				peerMax[ty] = min(peerMax[ty]+1, maxStreamsLimit)
				tc.writeFrames(packetType1RTT, debugFrameMaxStreams{streamType: ty, max: peerMax[ty]})
				if s, err = c21Open(tc.conn, ctx, ty); err != nil {
					r.Class("local-open-refused")
					break
				}
			}
			if err := gotLocal(s, "NewStream"); err != nil {
				return err
			}
			s.Write([]byte{1})
			s.Close()
			if err := drain(); err != nil {
				return err
			}
			if ty == bidiStream && localSeen[s.id] {
				tc.writeFrames(packetType1RTT, debugFrameStream{id: s.id, fin: true})
			}
			tc.writeAckForAll()
			localClosed = true
			if localSeen[s.id] {
				localsClosed[ty] = append(localsClosed[ty], s)
			}
		case "latelocal":
			// a late (reordered, retransmitted) peer frame for a local stream that is
			// completely closed, then the app opens another stream
			l := localsClosed[ty]
			if len(l) == 0 {
				break
			}
			id := l[int(st.N)%len(l)].id
			f := st.F
			if ty == uniStream && (f == "stream" || f == "reset") {
				f = "maxsd" // receive-side frames are illegal on our send-only streams
			}
			switch f {
			case "stream":
				tc.writeFrames(packetType1RTT, debugFrameStream{id: id, fin: true})
			case "reset":
				tc.writeFrames(packetType1RTT, debugFrameResetStream{id: id, code: 1, finalSize: 0})
			case "maxsd":
				tc.writeFrames(packetType1RTT, debugFrameMaxStreamData{id: id, max: 1 << 20})
			case "stop":
				tc.writeFrames(packetType1RTT, debugFrameStopSending{id: id, code: 2})
			}
			r.Class("late-frame-for-closed-local-stream")
			switch st.M {
			case 1:
				s, err := c21Open(tc.conn, ctx, ty)
				if err != nil {
					refused[ty] = true
					break
				}
				if err := gotLocal(s, "NewStream after a late frame for a closed stream"); err != nil {
					return err
				}
				s.Flush()
			case 2:
				if len(pending) >= 6 {
					break
				}
				a := &c21Async{uni: st.Uni, done: make(chan struct{})}
				go func() {
					defer close(a.done)
					a.s, a.err = c21Open(tc.conn, bctx, ty)
				}()
				pending = append(pending, a)
				synctest.Wait()
				select {
				case <-a.done:
				default:
					a.blocked = true
					refused[ty] = true
				}
			}
		case "localappclose":
			if l := locals[ty]; len(l) > 0 {
				l[int(st.N)%len(l)].Close()
			}
		case "localpeerfin":
			if l := locals[bidiStream]; len(l) > 0 {
				if s := l[int(st.N)%len(l)]; localSeen[s.id] {
					tc.writeFrames(packetType1RTT, debugFrameStream{id: s.id, fin: true})
				}
			}
		case "ack":
			tc.writeAckForAll()
		case "advance":
			vpAdvance(tc, 10*time.Second)
		}
		if err := drain(); err != nil {
			return err
		}
		if !gotClose {
			if err := acceptAll(); err != nil {
				return err
			}
		}
		if err := poll(); err != nil {
			return err
		}
		if err := drain(); err != nil {
			return err
		}
		if expectClose {
			if !gotClose {
				return fmt.Errorf("peer used stream number %d (%v) at or beyond the advertised MAX_STREAMS %d with a %s frame but the connection was not closed", adv[ty]+st.N, ty, adv[ty], st.F)
			}
			if closeApp || closeCode != errStreamLimit {
				return fmt.Errorf("peer opened a stream beyond the advertised limit: CONNECTION_CLOSE code %v (application=%v), want STREAM_LIMIT_ERROR", closeCode, closeApp)
			}
		} else if gotClose {
			return fmt.Errorf("connection closed with %v (application=%v) although the peer stayed within the advertised stream limits (step %+v)", closeCode, closeApp, st)
		}
	}
	if reAdvertised {
		r.Class("MAX_STREAMS-raised")
	}
	if closedAny {
		r.Class("peer-stream-closed")
	}
	if localClosed {
		r.Class("local-stream-fully-closed")
		for _, ty := range []streamType{bidiStream, uniStream} {
			if peerOpened[ty] > closedCnt[ty] && peerOpened[ty]+8 > adv[ty] {
				r.Class("local-close-while-peer-near-limit")
				break
			}
		}
	}
	if refusedThenOpened {
		r.Class("refused-then-opened")
	}
	if blockedReleased {
		r.Class("blocked-open-released")
	}
	if refusedThenOpened || blockedReleased || (closedAny && reAdvertised) || expectClose {
		r.NonTrivial()
	}
	return nil
}

func TestVP_C21(t *testing.T) {
	vp.Run(t, vp.Spec[c21Case]{ID: "C21", CrashFile: true, Gen: c21Gen, Known: c21Known, Prop: func(c c21Case, r *vp.Rec) error {
		return vp.Bubble(func(bt *testing.T) error { return c21Run(bt, c, r) })
	}})
}

// c21Open opens a local stream through the public constructors.
func c21Open(c *Conn, ctx context.Context, ty streamType) (*Stream, error) {
	var s *Stream
	var err error
	if ty == bidiStream {
		s, err = c.NewStream(ctx)
	} else {
		s, err = c.NewSendOnlyStream(ctx)
	}
	if err == nil && s != nil && s.id.streamType() != ty {
		return s, fmt.Errorf("the constructor for %v streams returned stream %d of type %v", ty, s.id, s.id.streamType())
	}
	return s, err
}
