package quic

import (
	"bytes"
	"fmt"
	"strings"
	"sync"
	"testing"

	"pgregory.net/rapid"
	"verif/vp"
)

// C30: the stream byte buffer (pipe) stores exactly the bytes written.
//
// A case is a history of operations whose offsets are given relative to the state
// at the time they run (window start, window end, a chunk edge) so that every
// sub-history is again a valid history (good shrinking). Resolution clamps every
// operation into the preconditions the callers in stream.go / crypto_stream.go
// respect:
//   - writeAt(b, off): any off >= 0 (data below start is dropped by the pipe)
//   - discardBefore(off): off >= start (monotonic); may go beyond end (crypto fast path)
//   - read / copy (off, n): start <= off, off+n <= end
//   - peek(n): n <= end - start
//   - fast path: b := availableBuffer(); fill b[:k]; (ack-driven discardBefore(x <= end));
//     end += k
// The oracle is a flat model: absolute offset -> last byte written (or unknown).

const (
	c30Chunk  = 4096
	c30MaxOff = 1 << 20 // the model's address space; histories that would leave it are discarded
	c30MaxWin = 72 << 10
)

type c30Pos struct {
	Anchor string `json:"a"` // start | end | edge
	K      int    `json:"k"` // edge index (edge = chunk base + K*4096)
	Delta  int    `json:"d"`
}

type c30Op struct {
	Kind string  `json:"op"` // write | discard | read | copy | peek | fast
	At   c30Pos  `json:"at"`
	N    int     `json:"n"`
	Fill byte    `json:"fill"`
	Cuts []int   `json:"cuts,omitempty"` // read/copy additionally in pieces of these sizes
	Mid  *c30Pos `json:"mid,omitempty"`  // fast: discardBefore between taking the buffer and committing
}

type c30Case struct {
	Profile string  `json:"profile"` // in | out | mixed (which caller the history imitates)
	Ops     []c30Op `json:"ops"`
}

type c30Model struct {
	start, end int64
	data       []byte
	known      []bool
	hi         int64 // offsets >= hi were never touched
}

// The model's arrays are reused between cases; release() clears what was touched.
var (
	c30ModelData  = make([]byte, c30MaxOff)
	c30ModelKnown = make([]bool, c30MaxOff)
)

func (m *c30Model) release() {
	clear(m.data[:m.hi])
	clear(m.known[:m.hi])
}

func c30Data(n int, fill byte) []byte {
	b := make([]byte, n)
	for i := range b {
		b[i] = byte(int(fill)*17 + i*29 + (i>>8)*7 + 1)
	}
	return b
}

func (m *c30Model) write(b []byte, off int64) {
	end := off + int64(len(b))
	if end > m.end {
		m.end = end
	}
	if end > m.hi {
		m.hi = end
	}
	for i, c := range b {
		o := off + int64(i)
		if o < m.start {
			continue
		}
		m.data[o] = c
		m.known[o] = true
	}
}

func (m *c30Model) discard(off int64) {
	for o := m.start; o < off && o < int64(len(m.known)); o++ {
		m.known[o] = false
	}
	m.start = off
	if m.end < off {
		m.end = off
	}
}

// compare got (the pipe's content of [off, off+len(got))) with the model on known bytes.
func (m *c30Model) compare(what string, off int64, got []byte) error {
	for i, c := range got {
		o := off + int64(i)
		if m.known[o] && m.data[o] != c {
			return fmt.Errorf("%s: byte at offset %d is %#02x, last written there was %#02x (window [%d,%d))", what, o, c, m.data[o], m.start, m.end)
		}
	}
	return nil
}

func c30Base(p *pipe) int64 {
	if p.head != nil {
		return p.head.off
	}
	return p.start
}

func c30Resolve(p *pipe, m *c30Model, pos c30Pos) int64 {
	var v int64
	switch pos.Anchor {
	case "end":
		v = m.end
	case "edge":
		v = c30Base(p) + int64(pos.K)*c30Chunk
	default:
		v = m.start
	}
	v += int64(pos.Delta)
	if v < 0 {
		v = 0
	}
	return v
}

// c30ReadAll reads [off, off+n) with pipe.read and returns the concatenation and the
// number of callbacks.
func c30ReadAll(p *pipe, off int64, n int) (out []byte, calls int, err error) {
	out = make([]byte, 0, n)
	e := p.read(off, n, func(b []byte) error {
		calls++
		out = append(out, b...)
		return nil
	})
	if e != nil {
		return out, calls, fmt.Errorf("read(%d,%d) returned error %v although the callback returned none", off, n, e)
	}
	if len(out) != n {
		return out, calls, fmt.Errorf("read(%d,%d) delivered %d bytes", off, n, len(out))
	}
	return out, calls, nil
}

func c30Verify(p *pipe, m *c30Model, when string) error {
	if p.start != m.start || p.end != m.end {
		return fmt.Errorf("%s: pipe window [%d,%d), model [%d,%d)", when, p.start, p.end, m.start, m.end)
	}
	n := int(m.end - m.start)
	if n == 0 {
		return nil
	}
	got, _, err := c30ReadAll(p, m.start, n)
	if err != nil {
		return fmt.Errorf("%s: full-window %v", when, err)
	}
	return m.compare(when+": full-window read", m.start, got)
}

func c30Crossings(base, lo, hi int64) int64 {
	if hi <= lo || lo < base {
		return 0
	}
	return (hi-1-base)/c30Chunk - (lo-base)/c30Chunk
}

func c30Prop(c c30Case, r *vp.Rec) (err error) {
	// Fresh, poisoned chunk pool per case: chunk contents left over from other
	// cases cannot influence this one.
	pipebufPool = sync.Pool{New: func() any {
		b := make([]byte, c30Chunk)
		for i := range b {
			b[i] = 0xdb
		}
		return &pipebuf{b: b}
	}}
	var trace []string
	defer func() {
		if p := recover(); p != nil {
			err = fmt.Errorf("panic: %v", p)
		}
		if err != nil {
			if len(trace) > 12 {
				trace = append([]string{"..."}, trace[len(trace)-12:]...)
			}
			err = fmt.Errorf("%v\nhistory: %s", err, strings.Join(trace, "; "))
		}
	}()

	var p pipe
	m := &c30Model{data: c30ModelData, known: c30ModelKnown}
	defer m.release()
	discarded := false
	nontrivial := false
	r.Class("profile-" + c.Profile)
	for i, o := range c.Ops {
		base := c30Base(&p)
		switch o.Kind {
		case "write":
			off := c30Resolve(&p, m, o.At)
			n := o.N
			if n < 0 {
				n = 0
			}
			if off > m.start+c30MaxWin {
				off = m.end
			}
			if off+int64(n) > m.start+c30MaxWin {
				n = int(m.start + c30MaxWin - off)
			}
			b := c30Data(n, o.Fill)
			keep := append([]byte{}, b...)
			trace = append(trace, fmt.Sprintf("writeAt(%d bytes, %d)", n, off))
			switch {
			case off+int64(n) <= m.start && n > 0:
				r.Class("write-entirely-before-start")
			case off < m.start && n > 0:
				r.Class("write-straddles-start")
			case off > m.end:
				r.Class("write-leaves-gap")
			case off < m.end && n > 0:
				r.Class("write-overlaps-existing")
			case n == 0:
				r.Class("write-empty")
			default:
				r.Class("write-append-at-end")
			}
			p.writeAt(b, off)
			if !bytes.Equal(b, keep) {
				return fmt.Errorf("step %d: writeAt modified the caller's buffer", i)
			}
			m.write(b, off)
			lo := max(off, m.start)
			if x := c30Crossings(c30Base(&p), lo, off+int64(n)); x >= 1 {
				r.Classf("write-crosses-%s-chunk-edges", c30Bucket(x))
				if x >= 2 && discarded {
					nontrivial = true
				}
			}
		case "discard":
			off := c30Resolve(&p, m, o.At)
			if off < m.start {
				off = m.start
			}
			if off > m.end+2*c30Chunk+10 {
				off = m.end
			}
			if off >= c30MaxOff-c30MaxWin-3*c30Chunk {
				r.Discard("history left the harness address space")
				return nil
			}
			trace = append(trace, fmt.Sprintf("discardBefore(%d)", off))
			switch {
			case off == m.start:
				r.Class("discard-noop")
			case off > m.end:
				r.Class("discard-beyond-end")
			case off == m.end:
				r.Class("discard-everything")
			default:
				r.Class("discard-inside-window")
			}
			if off > m.start && (off-base)%c30Chunk == 0 {
				r.Class("discard-exactly-at-chunk-edge")
			}
			p.discardBefore(off)
			if off > m.start {
				discarded = true
			}
			m.discard(off)
		case "read", "copy":
			off := c30Resolve(&p, m, o.At)
			off = min(max(off, m.start), m.end)
			n := min(max(o.N, 0), int(m.end-off))
			trace = append(trace, fmt.Sprintf("%s(%d,%d)", o.Kind, off, n))
			var whole []byte
			if o.Kind == "copy" {
				whole = make([]byte, n)
				p.copy(off, whole)
			} else {
				var calls int
				whole, calls, err = c30ReadAll(&p, off, n)
				if err != nil {
					return fmt.Errorf("step %d: %v", i, err)
				}
				if calls >= 2 {
					r.Class("read-delivered-in-several-slices")
				}
			}
			if err := m.compare(fmt.Sprintf("step %d: %s(%d,%d)", i, o.Kind, off, n), off, whole); err != nil {
				return err
			}
			// the same range in pieces
			if len(o.Cuts) > 0 && n > 0 {
				pos := 0
				var pieces []byte
				for _, cn := range append(append([]int{}, o.Cuts...), n) {
					cn = min(max(cn, 0), n-pos)
					if o.Kind == "copy" {
						got, _, err := c30ReadAll(&p, off+int64(pos), cn)
						if err != nil {
							return fmt.Errorf("step %d: %v", i, err)
						}
						pieces = append(pieces, got...)
					} else {
						buf := make([]byte, cn)
						p.copy(off+int64(pos), buf)
						pieces = append(pieces, buf...)
					}
					pos += cn
				}
				// compare on known bytes only (both came from the pipe, unknown bytes
				// are stable too, but the statement only speaks about written bytes)
				for j := range whole {
					if m.known[off+int64(j)] && pieces[j] != whole[j] {
						return fmt.Errorf("step %d: range [%d,%d) read in one call and in pieces differs at offset %d", i, off, off+int64(n), off+int64(j))
					}
				}
				r.Class("read-whole-vs-pieces")
			}
			if x := c30Crossings(base, off, off+int64(n)); x >= 1 {
				r.Classf("read-crosses-%s-chunk-edges", c30Bucket(x))
				if x >= 2 && discarded {
					nontrivial = true
				}
			}
		case "peek":
			n := int64(max(o.N, 0))
			n = min(n, m.end-m.start)
			trace = append(trace, fmt.Sprintf("peek(%d)", n))
			got := p.peek(n)
			if int64(len(got)) > n {
				return fmt.Errorf("step %d: peek(%d) returned %d bytes", i, n, len(got))
			}
			if err := m.compare(fmt.Sprintf("step %d: peek(%d)", i, n), m.start, got); err != nil {
				return err
			}
			switch {
			case n == 0:
				r.Class("peek-zero")
			case len(got) == 0:
				r.Class("peek-returned-nothing-though-window-nonempty")
			case int64(len(got)) < n:
				r.Class("peek-short(chunk edge)")
			default:
				r.Class("peek-full")
			}
		case "fast":
			buf := p.availableBuffer()
			k := min(max(o.N, 0), len(buf))
			if m.end+int64(k) > m.start+c30MaxWin {
				k = 0
			}
			b := c30Data(k, o.Fill)
			at := m.end
			copy(buf, b)
			trace = append(trace, fmt.Sprintf("availableBuffer()->%d bytes, filled %d at %d", len(buf), k, at))
			if o.Mid != nil {
				x := c30Resolve(&p, m, *o.Mid)
				x = min(max(x, m.start), m.end)
				trace = append(trace, fmt.Sprintf("discardBefore(%d) [while fast-path buffer outstanding]", x))
				p.discardBefore(x)
				if x > m.start {
					discarded = true
				}
				m.discard(x)
				r.Class("fast-path-with-interleaved-discard")
			}
			p.end += int64(k)
			trace = append(trace, fmt.Sprintf("end += %d", k))
			m.write(b, at)
			switch {
			case len(buf) == 0:
				r.Class("fast-path-no-buffer")
			case k == len(buf):
				r.Class("fast-path-filled-to-chunk-end")
			default:
				r.Class("fast-path-partial")
			}
		default:
			r.Discard("unknown op")
			return nil
		}
		if err := c30Verify(&p, m, fmt.Sprintf("after step %d (%s)", i, trace[len(trace)-1])); err != nil {
			return err
		}
	}
	if discarded {
		r.Class("history-with-discard")
	}
	if m.end-m.start > 2*c30Chunk {
		r.Class("final-window>2-chunks")
	}
	if nontrivial {
		r.NonTrivial()
	}
	return nil
}

func c30Bucket(x int64) string {
	switch {
	case x == 1:
		return "1"
	case x <= 3:
		return "2-3"
	default:
		return ">=4"
	}
}

func c30PosGen(anchors []string) *rapid.Generator[c30Pos] {
	return rapid.Custom(func(t *rapid.T) c30Pos {
		p := c30Pos{Anchor: rapid.SampledFrom(anchors).Draw(t, "anchor")}
		if p.Anchor == "edge" {
			p.K = rapid.IntRange(0, 6).Draw(t, "k")
		}
		switch rapid.IntRange(0, 5).Draw(t, "dhow") {
		case 0, 1:
			p.Delta = 0
		case 2, 3:
			p.Delta = rapid.IntRange(-3, 3).Draw(t, "dsmall")
		case 4:
			p.Delta = rapid.IntRange(-5000, 9000).Draw(t, "dbig")
		default:
			p.Delta = rapid.SampledFrom([]int{-4097, -4096, -4095, 4095, 4096, 4097, 8192, 12288}).Draw(t, "dchunk")
		}
		return p
	})
}

func c30LenGen() *rapid.Generator[int] {
	return rapid.Custom(func(t *rapid.T) int {
		switch rapid.IntRange(0, 5).Draw(t, "lhow") {
		case 0:
			return rapid.IntRange(0, 8).Draw(t, "tiny")
		case 1, 2:
			return rapid.IntRange(0, 1500).Draw(t, "packet")
		case 3:
			return rapid.SampledFrom([]int{4095, 4096, 4097, 8191, 8192, 8193, 12288, 16384}).Draw(t, "chunky")
		default:
			return rapid.IntRange(0, 20000).Draw(t, "long")
		}
	})
}

func c30Gen(t *rapid.T) c30Case {
	profile := rapid.SampledFrom([]string{"in", "in", "out", "mixed", "mixed"}).Draw(t, "profile")
	all := []string{"start", "end", "edge"}
	var opGen *rapid.Generator[c30Op]
	readOp := func(t *rapid.T, kind string) c30Op {
		o := c30Op{Kind: kind, At: c30PosGen(all).Draw(t, "at"), N: c30LenGen().Draw(t, "n")}
		if rapid.IntRange(0, 2).Draw(t, "whole") == 0 {
			// everything from (about) the window start
			o.At = c30Pos{Anchor: "start", Delta: rapid.IntRange(0, 3).Draw(t, "skip")}
			o.N = c30MaxWin
		}
		if rapid.Bool().Draw(t, "pieces") {
			o.Cuts = rapid.SliceOfN(rapid.IntRange(0, 5000), 1, 4).Draw(t, "cuts")
		}
		return o
	}
	discardOp := func(t *rapid.T, beyond bool) c30Op {
		o := c30Op{Kind: "discard", At: c30PosGen(all).Draw(t, "at")}
		if !beyond && o.At.Anchor == "end" && o.At.Delta > 0 {
			o.At.Delta = -o.At.Delta
		}
		if o.At.Anchor == "start" && o.At.Delta < 0 {
			o.At.Delta = -o.At.Delta
		}
		if o.At.Anchor == "edge" && o.At.K == 0 && o.At.Delta <= 0 {
			o.At.K = 1
		}
		return o
	}
	switch profile {
	case "out":
		// Stream.Write: append at end, fast path, ack-driven discards inside the window, copies
		opGen = rapid.Custom(func(t *rapid.T) c30Op {
			switch rapid.IntRange(0, 9).Draw(t, "kind") {
			case 0, 1, 2:
				return c30Op{Kind: "write", At: c30Pos{Anchor: "end"}, N: c30LenGen().Draw(t, "n"), Fill: rapid.Byte().Draw(t, "fill")}
			case 3, 4, 5:
				o := c30Op{Kind: "fast", N: rapid.IntRange(0, 5000).Draw(t, "n"), Fill: rapid.Byte().Draw(t, "fill")}
				if rapid.IntRange(0, 2).Draw(t, "mid") == 0 {
					mp := c30PosGen(all).Draw(t, "midpos")
					o.Mid = &mp
				}
				return o
			case 6, 7:
				return discardOp(t, false)
			default:
				return readOp(t, "copy")
			}
		})
	default:
		opGen = rapid.Custom(func(t *rapid.T) c30Op {
			hi := 9
			if profile == "mixed" {
				hi = 11
			}
			switch rapid.IntRange(0, hi).Draw(t, "kind") {
			case 0, 1, 2, 3:
				return c30Op{Kind: "write", At: c30PosGen(all).Draw(t, "at"), N: c30LenGen().Draw(t, "n"), Fill: rapid.Byte().Draw(t, "fill")}
			case 4, 5:
				return discardOp(t, true)
			case 6:
				return readOp(t, "read")
			case 7:
				return readOp(t, "copy")
			case 8, 9:
				return c30Op{Kind: "peek", N: c30LenGen().Draw(t, "n")}
			default:
				o := c30Op{Kind: "fast", N: rapid.IntRange(0, 5000).Draw(t, "n"), Fill: rapid.Byte().Draw(t, "fill")}
				if rapid.IntRange(0, 2).Draw(t, "mid") == 0 {
					mp := c30PosGen(all).Draw(t, "midpos")
					o.Mid = &mp
				}
				return o
			}
		})
	}
	// rapid's slice lengths are skewed towards the minimum; a slice of short bursts
	// gives longer histories and still shrinks by deleting bursts and operations.
	bursts := rapid.SliceOfN(rapid.SliceOfN(opGen, 1, 12), 1, 12).Draw(t, "ops")
	c := c30Case{Profile: profile}
	for _, b := range bursts {
		c.Ops = append(c.Ops, b...)
	}
	return c
}

func TestVP_C30(t *testing.T) {
	vp.Run(t, vp.Spec[c30Case]{ID: "C30", Gen: c30Gen, Prop: c30Prop})
}
