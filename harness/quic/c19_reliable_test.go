package quic

// C19: QUIC streams deliver bytes reliably and in order over a faulty network.
//
// Layer L3: two real Endpoints (client and server, real TLS handshake) joined by a
// harness-owned in-memory packet network (c19Net) that applies a pre-drawn fault
// schedule per direction (drop / duplicate / delay, the latter reorders), all inside
// one testing/synctest bubble. Application code (one writer and one reader goroutine
// per stream direction) uses ordinary blocking calls with context.Background(); fake
// time advances whenever every goroutine in the bubble is durably blocked.
//
// Asserted (exactly the statement):
//   - for every stream direction, the peer's Reads concatenated equal the bytes
//     written (in order, no duplication), followed by io.EOF after CloseWrite/Close,
//     and nothing after EOF;
//   - Stream.Close returning nil implies that the peer had received (hence could
//     acknowledge) all data and the FIN at that moment: checked on the peer's stream
//     state when Close returns, and — in the "freeze" variant — black-box: the network
//     drops everything from that moment on and the peer must still read the complete
//     stream.
//
// Not asserted: that Close returns at all (a Close that never returns although every
// byte and io.EOF was delivered is only counted, class close-hangs-after-delivery;
// replays of saved cases are strict about it).
//
// Repeatability: the test runs with GOMAXPROCS(1), and the conns' own randomness
// (connection IDs, skipped packet numbers) is derived from the case through the
// package's endpoint/conn test hooks.
//
// Findings so far (all reported; see KNOWN_FINDINGS.json, regress/C19): CloseRead left
// the fast-path read buffer behind; key-update deadlock; a truncated PTO probe re-labelled
// the FIN as sent; the conn loop does not service a timeout that is due exactly now. The
// last three depend on run-time packet numbers, so they are recognised by their run-time
// signature (not by Spec.Known) and skipped only while listed as open.
//
// "Eventually lets traffic through" = the fault schedules are finite and never drop
// more than 3 consecutive datagrams of a direction. Idle and handshake timeouts are
// disabled, so a connection cannot time out; a transfer that has not finished after
// c19Quiet of fake time without any fault being applied is reported as a stall.

import (
	"bytes"
	"context"
	"crypto/tls"
	"encoding/json"
	"errors"
	"fmt"
	"io"
	mrand "math/rand/v2"
	"net"
	"net/netip"
	"os"
	"runtime"
	"slices"
	"sync"
	"testing"
	"time"

	"pgregory.net/rapid"
	"verif/vp"
)

// ---------------------------------------------------------------- case

type c19Op struct {
	K string `json:"k"`           // write | flush | sleep | closewrite | close
	N int    `json:"n,omitempty"` // write: byte count; sleep: milliseconds
}

type c19Dir struct {
	Ops   []c19Op `json:"ops"`             // writer script; ends with closewrite or close
	Reads []int   `json:"reads"`           // read-buffer sizes, used cyclically
	Pause int     `json:"pause,omitempty"` // reader sleeps this many ms after each of its first 16 reads
	// Bytewise: writes of up to 300 bytes go through WriteByte and reads with a 1-byte
	// buffer through ReadByte (the io.ByteWriter / io.ByteReader side of Stream).
	Bytewise bool `json:"bytewise,omitempty"`
}

type c19Stream struct {
	Server bool   `json:"server"` // opened by the server
	Uni    bool   `json:"uni"`
	Fwd    c19Dir `json:"fwd"`           // opener -> acceptor
	Rev    c19Dir `json:"rev,omitempty"` // acceptor -> opener (bidirectional streams only)
	// Early: 0 = a side whose script ends in "close" first half-closes, waits until its
	// own reader is done and then calls Close. 1 (opener) / 2 (acceptor): that side
	// calls Close right away, which also aborts its read side (STOP_SENDING); the
	// direction towards it is then only checked for prefix-correctness.
	Early int `json:"early,omitempty"`
}

type c19Cfg struct {
	SR int64 `json:"sr"` // MaxStreamReadBufferSize (0 = default 1 MiB)
	SW int64 `json:"sw"` // MaxStreamWriteBufferSize
	CR int64 `json:"cr"` // MaxConnReadBufferSize
}

type c19Fault struct {
	Gap int    `json:"gap"`         // datagrams of this direction passed untouched before this fault
	K   string `json:"k"`           // drop | dup | delay
	D   int    `json:"d,omitempty"` // delay (ms) of the datagram (delay) or of its second copy (dup)
}

type c19Case struct {
	Cli     c19Cfg      `json:"cli"`
	Srv     c19Cfg      `json:"srv"`
	Streams []c19Stream `json:"streams"`
	CS      []c19Fault  `json:"cs"` // faults on datagrams client -> server
	SC      []c19Fault  `json:"sc"` // faults on datagrams server -> client
	// Freeze: 0 = off; 1+2*i+r = when Close on stream i (r=0: by the opener, r=1: by
	// the acceptor) returns nil the network drops everything from then on.
	Freeze int `json:"freeze,omitempty"`
	// Seed seeds the conns' PRNGs (which choose the packet numbers to skip).
	Seed uint64 `json:"seed"`
	Aim  string `json:"aim,omitempty"`
}

const (
	c19MaxBytes   = 100_000
	c19MaxDrops   = 3
	c19Quiet      = 100 * 24 * time.Hour
	c19DataDgram  = 200 // a datagram at least this long sent after the handshake is taken to carry STREAM data
	c19PauseReads = 16
)

// c19NormDir makes a direction script canonical: it stops at the first closewrite/close
// (appending closewrite if there is none), carries at most c19MaxBytes, has sane sizes.
func c19NormDir(d c19Dir) c19Dir {
	out := c19Dir{Pause: min(max(d.Pause, 0), 300), Bytewise: d.Bytewise}
	total := 0
	closed := false
	for _, op := range d.Ops {
		switch op.K {
		case "write":
			n := min(max(op.N, 0), c19MaxBytes-total)
			total += n
			out.Ops = append(out.Ops, c19Op{K: "write", N: n})
		case "flush":
			out.Ops = append(out.Ops, c19Op{K: "flush"})
		case "sleep":
			out.Ops = append(out.Ops, c19Op{K: "sleep", N: min(max(op.N, 0), 2000)})
		case "closewrite", "close":
			out.Ops = append(out.Ops, c19Op{K: op.K})
			closed = true
		}
		if closed {
			break
		}
	}
	if !closed {
		out.Ops = append(out.Ops, c19Op{K: "closewrite"})
	}
	for _, n := range d.Reads {
		out.Reads = append(out.Reads, min(max(n, 1), 1<<16))
	}
	if len(out.Reads) == 0 {
		out.Reads = []int{4096}
	}
	return out
}

func (d c19Dir) endsInClose() bool {
	return len(d.Ops) > 0 && d.Ops[len(d.Ops)-1].K == "close"
}

func (d c19Dir) total() (n int) {
	for _, op := range d.Ops {
		if op.K == "write" {
			n += op.N
		}
	}
	return n
}

// c19Norm brings a case into the domain (idempotent; applied by the generator and again
// by the property so that hand-edited replay files stay inside the domain).
func c19Norm(c c19Case) c19Case {
	if len(c.Streams) > 6 {
		c.Streams = c.Streams[:6]
	}
	ss := make([]c19Stream, len(c.Streams))
	for i, s := range c.Streams {
		s.Fwd = c19NormDir(s.Fwd)
		if s.Uni {
			s.Rev = c19Dir{}
			s.Early = 0
		} else {
			s.Rev = c19NormDir(s.Rev)
			switch s.Early {
			case 1:
				if !s.Fwd.endsInClose() {
					s.Early = 0
				}
			case 2:
				if !s.Rev.endsInClose() {
					s.Early = 0
				}
			default:
				s.Early = 0
			}
		}
		ss[i] = s
	}
	c.Streams = ss
	if c.Freeze < 0 || c.Freeze > 2*len(ss) {
		c.Freeze = 0
	}
	if c.Freeze > 0 {
		s := ss[(c.Freeze-1)/2]
		rev := (c.Freeze-1)%2 == 1
		switch {
		case rev && (s.Uni || !s.Rev.endsInClose() || s.Early == 1):
			c.Freeze = 0
		case !rev && (!s.Fwd.endsInClose() || s.Early == 2):
			c.Freeze = 0
		}
	}
	nf := func(fs []c19Fault) []c19Fault {
		var out []c19Fault
		for _, f := range fs {
			if len(out) == 32 {
				break
			}
			switch f.K {
			case "drop", "dup", "delay":
			default:
				continue
			}
			f.Gap = min(max(f.Gap, 0), 1000)
			f.D = min(max(f.D, 1), 300)
			if f.K == "drop" {
				f.D = 0
			}
			out = append(out, f)
		}
		return out
	}
	c.CS, c.SC = nf(c.CS), nf(c.SC)
	return c
}

func c19Gen(t *rapid.T) c19Case {
	pct := func(label string) int {
		return (int(rapid.Byte().Draw(t, label))*256 + int(rapid.Byte().Draw(t, label+"'"))) % 100
	}
	cfg := func(label string) c19Cfg {
		if pct(label+".default") < 25 {
			return c19Cfg{}
		}
		return c19Cfg{
			SR: rapid.SampledFrom([]int64{0, 512, 1024, 4096}).Draw(t, label+".sr"),
			SW: rapid.SampledFrom([]int64{0, 256, 1024, 4096}).Draw(t, label+".sw"),
			CR: rapid.SampledFrom([]int64{0, 1024, 4096, 16384}).Draw(t, label+".cr"),
		}
	}
	size := rapid.OneOf(
		rapid.IntRange(0, 400),
		rapid.SampledFrom([]int{0, 1, 2, 255, 256, 257, 1000, 1172, 1173, 1174, 1175, 1200, 2400, 4095, 4096, 4097, 16384, 65536}),
		rapid.IntRange(0, 20000),
		rapid.IntRange(0, c19MaxBytes),
	)
	op := rapid.Custom(func(t *rapid.T) c19Op {
		switch p := pct("op"); {
		case p < 62:
			return c19Op{K: "write", N: size.Draw(t, "n")}
		case p < 85:
			return c19Op{K: "flush"}
		default:
			return c19Op{K: "sleep", N: rapid.SampledFrom([]int{1, 5, 20, 26, 100, 400, 1500}).Draw(t, "ms")}
		}
	})
	dir := rapid.Custom(func(t *rapid.T) c19Dir {
		d := c19Dir{
			Ops:   rapid.SliceOfN(op, 0, 10).Draw(t, "ops"),
			Reads: rapid.SliceOfN(rapid.SampledFrom([]int{1, 2, 3, 17, 100, 1000, 1200, 4096, 65536}), 1, 4).Draw(t, "reads"),
		}
		if pct("bytewise") < 20 {
			d.Bytewise = true
			d.Reads = append(d.Reads, 1)
		}
		if pct("tail") < 20 {
			// everything flushed (and probably acknowledged) before the close: the FIN
			// then travels alone in an empty STREAM frame
			d.Ops = append(d.Ops, c19Op{K: "flush"}, c19Op{K: "sleep", N: rapid.SampledFrom([]int{1, 30, 400}).Draw(t, "tailms")})
		}
		d.Ops = append(d.Ops, c19Op{K: rapid.SampledFrom([]string{"closewrite", "close", "close"}).Draw(t, "fin")})
		if pct("pause") < 20 {
			d.Pause = rapid.SampledFrom([]int{1, 10, 30, 100}).Draw(t, "pausems")
		}
		return d
	})
	stream := rapid.Custom(func(t *rapid.T) c19Stream {
		s := c19Stream{
			Server: rapid.Bool().Draw(t, "server"),
			Uni:    rapid.Bool().Draw(t, "uni"),
			Fwd:    dir.Draw(t, "fwd"),
		}
		if !s.Uni {
			s.Rev = dir.Draw(t, "rev")
			if pct("early") < 15 {
				s.Early = rapid.IntRange(1, 2).Draw(t, "earlyside")
			}
		}
		return s
	})
	fault := rapid.Custom(func(t *rapid.T) c19Fault {
		f := c19Fault{
			Gap: rapid.OneOf(rapid.IntRange(0, 3), rapid.IntRange(0, 12), rapid.IntRange(0, 60)).Draw(t, "gap"),
			K:   rapid.SampledFrom([]string{"drop", "drop", "drop", "dup", "delay", "delay"}).Draw(t, "k"),
		}
		if f.K != "drop" {
			f.D = rapid.OneOf(rapid.IntRange(1, 300), rapid.SampledFrom([]int{1, 24, 25, 26, 300})).Draw(t, "d")
		}
		return f
	})
	c := c19Case{
		Cli:     cfg("cli"),
		Srv:     cfg("srv"),
		Streams: rapid.SliceOfN(stream, 1, 6).Draw(t, "streams"),
		CS:      rapid.SliceOfN(fault, 0, 24).Draw(t, "cs"),
		SC:      rapid.SliceOfN(fault, 0, 24).Draw(t, "sc"),
	}
	c.Seed = uint64(rapid.IntRange(0, 999).Draw(t, "seed"))
	if pct("freeze") < 30 {
		c.Freeze = rapid.IntRange(1, 2*len(c.Streams)).Draw(t, "freezeon")
	}
	if pct("aim-reset-after-partial-ack") < 10 {
		// A stream whose FIN can be acknowledged while earlier data is still missing, and
		// whose reader aborts at once (STOP_SENDING): several packets of data, losses
		// early in that direction, the acceptor closing right away. (Reads of 65536
		// keep the case outside the open finding c19-closeread-stale-fastpath-buffer.)
		a := c19Stream{
			Server: rapid.Bool().Draw(t, "aim-server"),
			Fwd:    c19Dir{Ops: []c19Op{{K: "write", N: rapid.IntRange(2500, 9000).Draw(t, "aim-n")}, {K: "close"}}, Reads: []int{65536}},
			Rev:    c19Dir{Ops: []c19Op{{K: "close"}}, Reads: []int{65536}},
			Early:  2,
		}
		if len(c.Streams) < 6 {
			c.Streams = append(c.Streams, a)
		} else {
			c.Streams[5] = a
		}
		fs := []c19Fault{
			{Gap: rapid.IntRange(0, 6).Draw(t, "aim-g1"), K: "drop"},
			{Gap: rapid.IntRange(0, 3).Draw(t, "aim-g2"), K: "drop"},
		}
		if a.Server {
			c.SC = append(fs, c.SC...)
		} else {
			c.CS = append(fs, c.CS...)
		}
		c.Aim = "reset-after-partial-ack"
	}
	return c19Norm(c)
}

// ---------------------------------------------------------------- network

// c19Net joins two packet conns. Index 0 is the client, 1 the server.
type c19Net struct {
	mu          sync.Mutex
	pc          [2]*c19PC
	sched       [2][]c19Fault
	next        [2]int // next schedule entry
	passed      [2]int // datagrams passed untouched since the last fault
	drops       [2]int // current run of consecutive drops
	sent        [2]int
	frozen      bool
	established bool
	timers      []*time.Timer
	lastFault   time.Time
	hurt        map[string]int // faults applied, by kind; "data-" prefix when the datagram looked like stream data
}

func c19NewNet(c c19Case) *c19Net {
	n := &c19Net{hurt: map[string]int{}, lastFault: time.Now()}
	n.sched[0], n.sched[1] = c.CS, c.SC
	for i := range n.pc {
		n.pc[i] = &c19PC{
			net:  n,
			side: i,
			addr: netip.AddrPortFrom(netip.AddrFrom4([4]byte{127, 0, 0, byte(1 + i)}), 443),
			wake: make(chan struct{}, 1),
		}
	}
	return n
}

func (n *c19Net) hurtCopy() map[string]int {
	n.mu.Lock()
	defer n.mu.Unlock()
	m := map[string]int{}
	for k, v := range n.hurt {
		m[k] = v
	}
	return m
}

func (n *c19Net) freeze() {
	n.mu.Lock()
	n.frozen = true
	n.mu.Unlock()
}

func (n *c19Net) stop() {
	n.mu.Lock()
	n.frozen = true
	for _, tm := range n.timers {
		tm.Stop()
	}
	n.timers = nil
	n.mu.Unlock()
}

// send is called with a private copy of a datagram written by side from.
func (n *c19Net) send(from int, b []byte) {
	n.mu.Lock()
	defer n.mu.Unlock()
	if n.frozen {
		return
	}
	n.sent[from]++
	to := 1 - from
	kind, d := "", 0
	if i := n.next[from]; i < len(n.sched[from]) {
		if f := n.sched[from][i]; n.passed[from] >= f.Gap {
			kind, d = f.K, f.D
			n.next[from]++
			n.passed[from] = 0
		} else {
			n.passed[from]++
		}
	}
	if kind == "drop" && n.drops[from] >= c19MaxDrops {
		kind = "" // never more than c19MaxDrops consecutive drops
	}
	if kind != "drop" {
		n.drops[from] = 0
	}
	if kind == "" {
		n.pc[to].enqueue(b)
		return
	}
	n.lastFault = time.Now()
	n.hurt[kind]++
	if n.established && len(b) >= c19DataDgram {
		n.hurt["data-"+kind]++
	}
	later := func(b []byte) {
		n.timers = append(n.timers, time.AfterFunc(time.Duration(d)*time.Millisecond, func() {
			n.mu.Lock()
			defer n.mu.Unlock()
			if !n.frozen {
				n.pc[to].enqueue(b)
			}
		}))
	}
	switch kind {
	case "drop":
		n.drops[from]++
	case "dup":
		n.pc[to].enqueue(b)
		later(bytes.Clone(b))
	case "delay":
		later(b)
	}
}

// c19PC is one end of the network; it implements the package's packetConn.
type c19PC struct {
	net  *c19Net
	side int
	addr netip.AddrPort

	mu     sync.Mutex
	q      [][]byte
	closed bool
	wake   chan struct{}
}

func (p *c19PC) enqueue(b []byte) {
	p.mu.Lock()
	if !p.closed {
		p.q = append(p.q, b)
	}
	p.mu.Unlock()
	select {
	case p.wake <- struct{}{}:
	default:
	}
}

func (p *c19PC) Close() error {
	p.mu.Lock()
	p.closed = true
	p.q = nil
	p.mu.Unlock()
	select {
	case p.wake <- struct{}{}:
	default:
	}
	return nil
}

func (p *c19PC) LocalAddr() netip.AddrPort { return p.addr }

func (p *c19PC) Read(f func(*datagram)) {
	for {
		p.mu.Lock()
		if p.closed {
			p.mu.Unlock()
			return
		}
		if len(p.q) == 0 {
			p.mu.Unlock()
			<-p.wake
			continue
		}
		b := p.q[0]
		p.q[0] = nil
		p.q = p.q[1:]
		p.mu.Unlock()
		d := newDatagram()
		d.b = d.b[:copy(d.b, b)]
		d.peerAddr = p.net.pc[1-p.side].addr
		d.localAddr = p.addr
		f(d)
	}
}

func (p *c19PC) Write(d datagram) error {
	p.mu.Lock()
	closed := p.closed
	p.mu.Unlock()
	if closed {
		return net.ErrClosed
	}
	p.net.send(p.side, bytes.Clone(d.b))
	return nil
}

// c19Hooks makes a conn's own randomness (connection IDs, skipped packet numbers) a
// function of the case, for repeatability. It implements endpointTestHooks.
type c19Hooks struct {
	seed  uint64
	side  byte
	conns int // conns created by this endpoint (a duplicated, late Initial creates a second one)
}

func (h *c19Hooks) newConn(c *Conn, cids newServerConnIDs) {
	c.testHooks = &c19ConnHooks{h: h, c: c, n: h.conns}
	h.conns++
}

type c19ConnHooks struct {
	h *c19Hooks
	c *Conn
	n int
}

func (k *c19ConnHooks) init(first bool) {
	if first {
		k.c.prng = mrand.New(mrand.NewPCG(k.h.seed, uint64(k.h.side)+2*uint64(k.n)))
		k.c.skip = skipState{}
		k.c.skip.init(k.c)
	}
}
func (k *c19ConnHooks) handleTLSEvent(tls.QUICEvent) {}
func (k *c19ConnHooks) newConnID(seq int64) ([]byte, error) {
	return []byte{0xc1, k.h.side, byte(k.n >> 8), byte(k.n), 0, 0, byte(seq >> 8), byte(seq)}, nil
}

// ---------------------------------------------------------------- run

func c19Fill(b []byte, salt byte, off int) {
	for i := range b {
		o := off + i
		b[i] = byte(o) ^ byte(o>>8)*13 ^ byte(o>>16)*29 + salt
	}
}

// c19DirRun is the state and outcome of one stream direction.
type c19DirRun struct {
	name   string
	spec   c19Dir
	want   int
	salt   byte
	from   int  // writing side (0 client, 1 server)
	prefix bool // the reading side aborts its read side early: only prefix-correctness is demanded
	freeze bool // Close returning nil on this direction freezes the network
	id     streamID

	// writer
	wstarted bool
	wrote    int
	werr     error
	closed   bool  // Close was called and returned
	closeErr error // its result
	ackFail  string
	wdone    chan struct{}

	// reader
	rstarted bool
	rpos     int
	bad      string // first wrong byte
	eof      bool
	afterEOF string
	rerr     error
	rdone    chan struct{}
}

type c19Run struct {
	c       c19Case
	net     *c19Net
	conn    [2]*Conn
	dirs    []*c19DirRun // 2 per stream: fwd, rev (rev nil for uni)
	wg      sync.WaitGroup
	frozenc chan struct{}

	mu       sync.Mutex
	accepted [2]map[streamID]*Stream // every stream a side has opened or accepted
	misc     []string                // failures outside any direction (accept errors, panics)
}

func (x *c19Run) fail(format string, a ...any) {
	x.mu.Lock()
	x.misc = append(x.misc, fmt.Sprintf(format, a...))
	x.mu.Unlock()
}

func (x *c19Run) goFunc(name string, f func()) {
	x.wg.Add(1)
	go func() {
		defer x.wg.Done()
		defer func() {
			if p := recover(); p != nil {
				x.fail("panic in %s: %v", name, p)
			}
		}()
		f()
	}()
}

// peerHasAll reports (as "" or a description) whether the peer of direction d's writer
// has received the whole stream including its final size. Called right after the
// writer's Close returned nil.
func (x *c19Run) peerHasAll(d *c19DirRun) string {
	pc := x.conn[1-d.from]
	lookup := func() *Stream {
		x.mu.Lock()
		defer x.mu.Unlock()
		return x.accepted[1-d.from][d.id]
	}
	ps := lookup()
	var lerr error
	if ps == nil {
		// Not handed to the peer's application yet: look into the peer's conn.
		lerr = pc.runOnLoop(context.Background(), func(now time.Time, c *Conn) {
			ps = c.streams.streams[d.id].s
		})
	}
	if ps == nil {
		// The application may have accepted, finished and closed it meanwhile
		// (which removes it from the conn); it is registered before that happens.
		ps = lookup()
	}
	if ps == nil && lerr != nil {
		// The peer's conn is gone (the freeze variant's teardown has begun, or the
		// connection died, which the delivery clauses report): nothing to look at.
		return ""
	}
	if ps == nil {
		return "the peer does not know the stream"
	}
	ps.ingate.lock()
	insize := ps.insize
	var have int64
	if len(ps.inset) > 0 && ps.inset[0].start == 0 {
		have = ps.inset[0].end
	}
	ps.inUnlock()
	if insize != int64(d.want) || have < int64(d.want) {
		return fmt.Sprintf("the peer has received bytes [0,%d) and final size %d of a %d-byte stream", have, insize, d.want)
	}
	return ""
}

// diag describes the sending state of a stalled direction (diagnostics only).
func (x *c19Run) diag(d *c19DirRun) string {
	x.mu.Lock()
	ws := x.accepted[d.from][d.id]
	rs := x.accepted[1-d.from][d.id]
	x.mu.Unlock()
	out := ""
	if ws != nil {
		ws.outgate.lock()
		out += fmt.Sprintf("sender stream: out=[%d,%d) flushed=%d win=%d maxsent=%d unsent=%v acked=%v closed=%#x blocked=%#x reset=%v state=%#x",
			ws.out.start, ws.out.end, ws.outflushed, ws.outwin, ws.outmaxsent, ws.outunsent, ws.outacked, uint64(ws.outclosed), uint64(ws.outblocked), ws.outreset.isSet(), ws.state.load())
		ws.outUnlock()
		c := x.conn[d.from]
		c.runOnLoop(context.Background(), func(now time.Time, c *Conn) {
			ls := &c.loss
			out += fmt.Sprintf("; sender conn: outflow=%d/%d cwnd=%d inflight=%d recovery=%v underutilized=%v pto(armed=%v expired=%v backoff=%d) timer=%v inflightpkts=%d..%d state=%v",
				c.streams.outflow.used, c.streams.outflow.max, ls.cc.congestionWindow, ls.cc.bytesInFlight, ls.cc.inRecovery, ls.cc.underutilized,
				ls.ptoTimerArmed, ls.ptoExpired, ls.ptoBackoffCount, ls.timer.Sub(now), ls.spaces[appDataSpace].start(), ls.spaces[appDataSpace].end(), c.lifetime.state)
		})
	}
	if rs != nil {
		rs.ingate.lock()
		out += fmt.Sprintf("; receiver stream: in=[%d,%d) inbuf=%d/%d win=%d maxbuf=%d size=%d set=%v sendmax=%#x", rs.in.start, rs.in.end, rs.inbufoff, len(rs.inbuf), rs.inwin, rs.inmaxbuf, rs.insize, rs.inset, uint64(rs.insendmax))
		rs.inUnlock()
		c := x.conn[1-d.from]
		c.runOnLoop(context.Background(), func(now time.Time, c *Conn) {
			out += fmt.Sprintf("; receiver conn: inflow sent=%#x state=%v", uint64(c.streams.inflow.sent), c.lifetime.state)
		})
	}
	return out
}

// c19SenderAckedAll inspects the sending stream after Close returned nil: its set of
// acknowledged bytes must be exactly [0,total) and the FIN must have been acknowledged.
func c19SenderAckedAll(s *Stream, total int) string {
	s.outgate.lock()
	defer s.outUnlock()
	var acked int64 = -1
	if len(s.outacked) == 0 && total == 0 {
		acked = 0
	} else if len(s.outacked) > 0 && s.outacked[0].start == 0 {
		acked = s.outacked[0].end
	}
	if acked < int64(total) || !s.outclosed.isReceived() {
		return fmt.Sprintf("the sender holds acknowledgements for bytes [0,%d) of %d (FIN acknowledged: %v; the peer aborted its read side)", max(acked, 0), total, s.outclosed.isReceived())
	}
	return ""
}

func (x *c19Run) writer(d *c19DirRun, s *Stream, early bool, ownReader <-chan struct{}) {
	defer close(d.wdone)
	for _, op := range d.spec.Ops {
		switch op.K {
		case "write":
			b := make([]byte, op.N)
			c19Fill(b, d.salt, d.wrote)
			var n int
			var err error
			if d.spec.Bytewise && op.N <= 300 {
				for n < op.N && err == nil {
					if err = s.WriteByte(b[n]); err == nil {
						n++
					}
				}
			} else {
				n, err = s.Write(b)
			}
			d.wrote += n
			if err != nil {
				d.werr = fmt.Errorf("Write(%d bytes) = %d, %v", op.N, n, err)
				return
			}
			if n != op.N {
				d.werr = fmt.Errorf("Write(%d bytes) = %d, nil", op.N, n)
				return
			}
		case "flush":
			if err := s.Flush(); err != nil {
				d.werr = fmt.Errorf("Flush: %v", err)
				return
			}
		case "sleep":
			time.Sleep(time.Duration(op.N) * time.Millisecond)
		case "closewrite":
			s.CloseWrite()
			return
		case "close":
			if !early && ownReader != nil {
				// Close also aborts the read side; let our own reader finish first.
				s.CloseWrite()
				<-ownReader
			}
			d.closeErr = s.Close()
			d.closed = true
			if d.closeErr == nil {
				if !d.prefix {
					d.ackFail = x.peerHasAll(d)
				} else {
					// The peer aborted its read side and no longer records what it
					// receives; what can still be decided is the sender's own
					// bookkeeping: nil means every byte and the FIN were acknowledged.
					d.ackFail = c19SenderAckedAll(s, d.wrote)
				}
				if d.freeze {
					x.net.freeze()
					close(x.frozenc)
				}
			}
			return
		}
	}
}

func (x *c19Run) reader(d *c19DirRun, s *Stream) {
	defer close(d.rdone)
	buf := make([]byte, 1<<16)
	exp := make([]byte, 1<<16)
	zero := 0
	for i := 0; ; i++ {
		sz := d.spec.Reads[i%len(d.spec.Reads)]
		var n int
		var err error
		if d.spec.Bytewise && sz == 1 {
			var b byte
			if b, err = s.ReadByte(); err == nil {
				buf[0], n = b, 1
			}
		} else {
			n, err = s.Read(buf[:sz])
		}
		if n < 0 || n > sz {
			d.bad = fmt.Sprintf("Read(%d-byte buffer) returned n=%d", sz, n)
			return
		}
		if n > 0 && d.bad == "" {
			if d.rpos+n > d.want {
				d.bad = fmt.Sprintf("Read returned data beyond the %d bytes written (%d bytes at offset %d)", d.want, n, d.rpos)
				return
			}
			c19Fill(exp[:n], d.salt, d.rpos)
			if !bytes.Equal(exp[:n], buf[:n]) {
				for j := 0; j < n; j++ {
					if exp[j] != buf[j] {
						d.bad = fmt.Sprintf("byte at offset %d is %#02x, want %#02x (Read returned %d bytes at offset %d)", d.rpos+j, buf[j], exp[j], n, d.rpos)
						break
					}
				}
				return
			}
		}
		d.rpos += n
		if err == io.EOF {
			d.eof = true
			n2, err2 := s.Read(buf[:sz])
			if n2 != 0 || err2 == nil {
				d.afterEOF = fmt.Sprintf("Read after io.EOF returned %d, %v", n2, err2)
			}
			break
		}
		if err != nil {
			d.rerr = err
			break
		}
		if n == 0 {
			if zero++; zero >= 100 {
				d.rerr = errors.New("Read returned 0, nil a hundred times in a row")
				break
			}
		} else {
			zero = 0
		}
		if d.spec.Pause > 0 && i < c19PauseReads {
			time.Sleep(time.Duration(d.spec.Pause) * time.Millisecond)
		}
	}
	if s.IsReadOnly() {
		s.Close()
	}
}

// start launches the application goroutines of one side of stream i.
func (x *c19Run) start(i int, side int, s *Stream) {
	st := x.c.Streams[i]
	opener := 0
	if st.Server {
		opener = 1
	}
	x.mu.Lock()
	x.accepted[side][s.id] = s
	x.mu.Unlock()
	fwd, rev := x.dirs[2*i], x.dirs[2*i+1]
	out, in := fwd, rev // from the opener's point of view
	early := st.Early == 1
	if side != opener {
		out, in = rev, fwd
		early = st.Early == 2
	}
	var ownReader <-chan struct{}
	if in != nil {
		in.rstarted = true
		ownReader = in.rdone
		x.goFunc(in.name+" reader", func() { x.reader(in, s) })
	}
	if out != nil {
		out.wstarted = true
		x.goFunc(out.name+" writer", func() { x.writer(out, s, early, ownReader) })
	}
}

var errC19Handshake = errors.New("handshake failed")

func c19RunCase(t *testing.T, c c19Case, r *vp.Rec) (err error) {
	ctx := context.Background()
	x := &c19Run{c: c, net: c19NewNet(c), frozenc: make(chan struct{})}
	x.accepted[0], x.accepted[1] = map[streamID]*Stream{}, map[streamID]*Stream{}

	mkcfg := func(side connSide, k c19Cfg) *Config {
		return &Config{
			TLSConfig:                newTestTLSConfig(side),
			MaxStreamReadBufferSize:  k.SR,
			MaxStreamWriteBufferSize: k.SW,
			MaxConnReadBufferSize:    k.CR,
			HandshakeTimeout:         -1,
			MaxIdleTimeout:           -1,
		}
	}
	ccfg, scfg := mkcfg(clientSide, c.Cli), mkcfg(serverSide, c.Srv)
	var eps [2]*Endpoint
	if eps[1], err = newEndpoint(x.net.pc[1], scfg, &c19Hooks{seed: c.Seed, side: 1}); err != nil {
		return fmt.Errorf("harness: newEndpoint: %v", err)
	}
	if eps[0], err = newEndpoint(x.net.pc[0], nil, &c19Hooks{seed: c.Seed, side: 0}); err != nil {
		return fmt.Errorf("harness: newEndpoint: %v", err)
	}
	teardown := func() {
		eps[0].Close(canceledContext())
		eps[1].Close(canceledContext())
		x.net.stop()
		<-eps[0].closec
		<-eps[1].closec
		x.wg.Wait()
	}

	// waitQuiet waits for done; it gives up (true) once c19Quiet of fake time has
	// passed since the network last applied a fault.
	waitQuiet := func(done <-chan struct{}) (stalled bool) {
		for {
			x.net.mu.Lock()
			last := x.net.lastFault
			x.net.mu.Unlock()
			left := time.Until(last.Add(c19Quiet))
			if left <= 0 {
				return true
			}
			tm := time.NewTimer(left)
			select {
			case <-done:
				tm.Stop()
				return false
			case <-tm.C:
			}
		}
	}

	// ---- connect
	var derr, aerr error
	connected := make(chan struct{})
	var cwg sync.WaitGroup
	cwg.Add(2)
	go func() {
		defer cwg.Done()
		x.conn[0], derr = eps[0].Dial(ctx, "udp", x.net.pc[1].addr.String(), ccfg)
	}()
	go func() {
		defer cwg.Done()
		x.conn[1], aerr = eps[1].Accept(ctx)
	}()
	go func() { cwg.Wait(); close(connected) }()
	if waitQuiet(connected) {
		teardown()
		<-connected
		return fmt.Errorf("handshake did not complete within %v of fake time after the last network fault (faults applied: %v)", c19Quiet, x.net.hurt)
	}
	if derr != nil || aerr != nil {
		teardown()
		r.Class("handshake-failed")
		r.Discard(fmt.Sprintf("handshake failed: dial: %v, accept: %v", derr, aerr))
		return nil
	}
	x.net.mu.Lock()
	x.net.established = true
	hsHurt := x.net.hurt["drop"] + x.net.hurt["dup"] + x.net.hurt["delay"]
	x.net.mu.Unlock()

	// ---- streams
	var nopen [2]int
	ids := [2]map[streamID]int{{}, {}} // by opener
	var count [2][2]int64              // [opener][uni]
	x.dirs = make([]*c19DirRun, 2*len(c.Streams))
	for i, st := range c.Streams {
		opener, u, styp := 0, 0, bidiStream
		if st.Server {
			opener = 1
		}
		if st.Uni {
			u, styp = 1, uniStream
		}
		side := clientSide
		if st.Server {
			side = serverSide
		}
		id := newStreamID(side, styp, count[opener][u])
		count[opener][u]++
		ids[opener][id] = i
		nopen[opener]++
		x.dirs[2*i] = &c19DirRun{
			name: fmt.Sprintf("stream %d (id %d) opener->acceptor", i, id), spec: st.Fwd, want: st.Fwd.total(),
			salt: byte(17*i + 1), from: opener, prefix: st.Early == 2, freeze: c.Freeze == 1+2*i, id: id,
			wdone: make(chan struct{}), rdone: make(chan struct{}),
		}
		if !st.Uni {
			x.dirs[2*i+1] = &c19DirRun{
				name: fmt.Sprintf("stream %d (id %d) acceptor->opener", i, id), spec: st.Rev, want: st.Rev.total(),
				salt: byte(17*i + 9), from: 1 - opener, prefix: st.Early == 1, freeze: c.Freeze == 2+2*i, id: id,
				wdone: make(chan struct{}), rdone: make(chan struct{}),
			}
		}
	}
	for side := 0; side < 2; side++ {
		side := side
		conn := x.conn[side]
		// opener: creates this side's streams in script order, so that ids are known
		x.goFunc(fmt.Sprintf("opener %d", side), func() {
			for i, st := range c.Streams {
				if st.Server != (side == 1) {
					continue
				}
				var s *Stream
				var err error
				if st.Uni {
					s, err = conn.NewSendOnlyStream(ctx)
				} else {
					s, err = conn.NewStream(ctx)
				}
				if err != nil {
					select {
					case <-x.frozenc:
						return // cut off by the freeze variant's teardown
					default:
					}
					conn.Wait(ctx) // the conn is gone; Wait returns once its final error is set
					x.fail("opening stream %d: %v (conn: %v; faults applied so far: %v)", i, err, conn.lifetime.finalErr, x.net.hurtCopy())
					return
				}
				if s.id != x.dirs[2*i].id {
					x.fail("harness: stream %d got id %d, expected %d", i, s.id, x.dirs[2*i].id)
					return
				}
				x.start(i, side, s)
			}
		})
		// acceptor: accepts the streams the peer opens
		x.goFunc(fmt.Sprintf("acceptor %d", side), func() {
			for k := 0; k < nopen[1-side]; k++ {
				s, err := conn.AcceptStream(ctx)
				if err != nil {
					return // connection gone; the directions report what is missing
				}
				i, ok := ids[1-side][s.id]
				if !ok {
					x.fail("AcceptStream returned stream id %d, which the peer never opened", s.id)
					return
				}
				x.mu.Lock()
				dup := x.accepted[side][s.id] != nil
				x.mu.Unlock()
				if dup {
					x.fail("AcceptStream returned stream id %d twice", s.id)
					return
				}
				x.start(i, side, s)
			}
		})
	}
	alldone := make(chan struct{})
	go func() { x.wg.Wait(); close(alldone) }()

	stalled, frozen := false, false
	sel := make(chan struct{})
	go func() {
		select {
		case <-alldone:
		case <-x.frozenc:
		}
		close(sel)
	}()
	if waitQuiet(sel) {
		stalled = true
	} else {
		select {
		case <-x.frozenc:
			frozen = true
		default:
		}
	}
	stallInfo := ""
	kuDeadlock, finStuck, overdue := false, false, false
	if stalled {
		// Signature of the conn loop's lost wake-up: a conn is alive and its next
		// timeout has been due for more than an hour of fake time.
		for _, c := range x.conn {
			donec := make(chan struct{})
			c.sendMsg(func(now, next time.Time, c *Conn) {
				if !next.IsZero() && now.Sub(next) > time.Hour && c.isAlive() {
					overdue = true
				}
				close(donec)
			})
			select {
			case <-donec:
			case <-c.donec:
			}
		}
		// Signature of the key-update deadlock: both endpoints are in the middle of a
		// 1-RTT key update and packets fail authentication.
		var upd [2]bool
		var authFail [2]int64
		for i, c := range x.conn {
			c.runOnLoop(ctx, func(now time.Time, c *Conn) {
				upd[i], authFail[i] = c.keysAppData.updating, c.keysAppData.authFailures
			})
		}
		kuDeadlock = upd[0] && upd[1] && authFail[0]+authFail[1] > 0
		stallInfo = fmt.Sprintf("conn timeout overdue: %v; key update in progress: client=%v server=%v, packets failing authentication: client=%d server=%d; ", overdue, upd[0], upd[1], authFail[0], authFail[1])
		diag := ""
		for _, d := range x.dirs {
			if d != nil && !d.prefix {
				select {
				case <-d.rdone:
				default:
					diag = x.diag(d)
				}
			}
			if diag != "" {
				break
			}
		}
		stallInfo += diag
		if diag == "" {
			// Every reader is done: describe a writer that is not.
			for _, d := range x.dirs {
				if d == nil {
					continue
				}
				select {
				case <-d.wdone:
				default:
					if d.wstarted {
						stallInfo += "writer of " + d.name + " has not returned: " + x.diag(d)
					}
				}
				if len(stallInfo) > 400 {
					break
				}
			}
		}
		// Signature of the lost-FIN stall: some sender has all data acknowledged, its
		// FIN recorded as sent but unacknowledged, and nothing in flight.
		for _, d := range x.dirs {
			if d == nil {
				continue
			}
			x.mu.Lock()
			ws := x.accepted[d.from][d.id]
			x.mu.Unlock()
			if ws == nil {
				continue
			}
			ws.outgate.lock()
			finSent := ws.outclosed.state() == sentValSent && (ws.outacked.isrange(0, ws.out.end) || ws.out.end == 0)
			ws.outUnlock()
			inflight := -1
			x.conn[d.from].runOnLoop(ctx, func(now time.Time, c *Conn) { inflight = c.loss.cc.bytesInFlight })
			if finSent && inflight == 0 {
				finStuck = true
			}
		}
	}
	var freezeErr error
	if frozen {
		// The network is dead from now on. The peer must already hold the whole stream.
		d := x.dirs[c.Freeze-1]
		tm := time.NewTimer(10 * time.Second)
		select {
		case <-d.rdone:
		case <-tm.C:
			freezeErr = fmt.Errorf("%s: Close returned nil, the network was cut at that moment, and the peer's reader is still waiting after reading %d of %d bytes (eof=%v)", d.name, d.rpos, d.want, d.eof)
		}
		tm.Stop()
	}
	teardown()
	<-alldone
	<-sel

	// ---- verdict
	if stalled && kuDeadlock && c19FindingOpen()[c19KeyUpdateFinding] {
		r.Class("known-keyupdate-deadlock")
		r.Discard("known finding " + c19KeyUpdateFinding)
		return nil
	}
	if stalled && finStuck && c19FindingOpen()[c19LostFinFinding] {
		r.Class("known-lost-fin-stall")
		r.Discard("known finding " + c19LostFinFinding)
		return nil
	}
	if stalled && overdue && c19FindingOpen()[c19DueTimerFinding] {
		r.Class("known-due-timer-not-serviced")
		r.Discard("known finding " + c19DueTimerFinding)
		return nil
	}
	if len(x.misc) > 0 {
		return errors.New(x.misc[0])
	}
	if freezeErr != nil {
		return freezeErr
	}
	connErr := func() string {
		return fmt.Sprintf("client conn: %v; server conn: %v", x.conn[0].lifetime.finalErr, x.conn[1].lifetime.finalErr)
	}
	for _, d := range x.dirs {
		if d == nil {
			continue
		}
		if d.bad != "" {
			return fmt.Errorf("%s: %s", d.name, d.bad)
		}
		if d.afterEOF != "" {
			return fmt.Errorf("%s: %s", d.name, d.afterEOF)
		}
		if d.eof && d.rpos != d.want {
			return fmt.Errorf("%s: io.EOF after %d bytes, %d were written", d.name, d.rpos, d.want)
		}
		if d.ackFail != "" {
			return fmt.Errorf("%s: Close returned nil but %s", d.name, d.ackFail)
		}
		if frozen && !d.freeze {
			continue // cut off by the freeze; only what was read is checked
		}
		if d.prefix {
			continue
		}
		if stalled {
			if !d.eof {
				return fmt.Errorf("%s: stalled: reader has %d of %d bytes (eof=%v, err=%v), writer wrote %d (err=%v, started=%v) and no fault was applied for %v of fake time; faults applied: %v; %s",
					d.name, d.rpos, d.want, d.eof, d.rerr, d.wrote, d.werr, d.wstarted, c19Quiet, x.net.hurt, stallInfo)
			}
			continue
		}
		if d.werr != nil {
			return fmt.Errorf("%s: writer failed after %d bytes: %v (%s)", d.name, d.wrote, d.werr, connErr())
		}
		if !d.rstarted {
			return fmt.Errorf("%s: the peer never accepted the stream (%s)", d.name, connErr())
		}
		if !d.eof {
			return fmt.Errorf("%s: reader got error %v after %d of %d bytes instead of io.EOF (%s)", d.name, d.rerr, d.rpos, d.want, connErr())
		}
		if d.closed && d.closeErr != nil {
			// Not demanded by the statement (it only constrains a nil result), but a
			// failing Close on a healthy, fully delivered stream is worth a class.
			r.Class("close-error")
		}
	}
	if stalled {
		// Every clause of the statement held (all bytes and io.EOF delivered), but some
		// Close never returned. The statement does not promise that it does; count it.
		r.Class("close-hangs-after-delivery")
		if os.Getenv("VP_REPLAY") != "" || os.Getenv("C19_STRICT") != "" {
			// Replays (regression cases) are strict, so that the case of finding
			// c19-conn-loop-due-timer-not-serviced keeps guarding its repair.
			return fmt.Errorf("stalled: application goroutines did not finish although every stream was delivered (faults applied: %v); %s", x.net.hurt, stallInfo)
		}
	}

	// ---- classes
	h := x.net.hurt
	for _, k := range []string{"drop", "dup", "delay", "data-drop", "data-dup", "data-delay"} {
		if h[k] > 0 {
			r.Class(k)
		}
	}
	if hsHurt > 0 {
		r.Class("handshake-fault")
	}
	if h["drop"]+h["dup"]+h["delay"] == 0 {
		r.Class("perfect-network")
	}
	if len(c.Streams) >= 2 {
		r.Class("multi-stream")
	}
	if c.Aim != "" {
		r.Class("aim:" + c.Aim)
	}
	small, big, bidi, uni, closes, early, finonly := false, false, false, false, false, false, false
	for _, k := range []c19Cfg{c.Cli, c.Srv} {
		if k.SR != 0 || k.SW != 0 || k.CR != 0 {
			small = true
		}
	}
	for _, st := range c.Streams {
		if st.Uni {
			uni = true
		} else {
			bidi = true
		}
		if st.Early != 0 {
			early = true
		}
	}
	for _, d := range x.dirs {
		if d == nil {
			continue
		}
		if d.want >= 20000 {
			big = true
		}
		if d.closed && d.closeErr == nil {
			closes = true
		}
		if n := len(d.spec.Ops); n >= 3 && d.want > 0 && d.spec.Ops[n-2].K == "sleep" && d.spec.Ops[n-3].K == "flush" {
			finonly = true
		}
	}
	for name, on := range map[string]bool{"small-buffers": small, "transfer>=20KB": big, "bidi": bidi, "uni": uni, "close-nil": closes, "early-close": early, "freeze": frozen, "fin-in-own-frame": finonly} {
		if on {
			r.Class(name)
		}
	}
	if (h["data-drop"] > 0 || h["data-delay"] > 0) && len(c.Streams) >= 2 {
		r.NonTrivial()
	}
	return nil
}

// c19Known: known finding c19-closeread-stale-fastpath-buffer. Close on a bidirectional
// stream whose own reader still has received-but-unread bytes in the stream's fast-path
// read buffer corrupts the stream's receive offsets; the connection then dies with
// FINAL_SIZE_ERROR. That buffer only ever exists if some Read used a buffer smaller than
// the data available, so the predicate is: a side closes early and the direction towards
// it carries more bytes than its smallest read buffer.
func c19Known(c c19Case) string {
	c = c19Norm(c)
	for _, s := range c.Streams {
		var in c19Dir
		switch s.Early {
		case 1:
			in = s.Rev
		case 2:
			in = s.Fwd
		default:
			continue
		}
		if in.total() > slices.Min(in.Reads) {
			return "c19-closeread-stale-fastpath-buffer"
		}
	}
	return ""
}

const (
	c19KeyUpdateFinding = "c19-keyupdate-deadlock"
	c19LostFinFinding   = "c19-truncated-probe-steals-fin"
	c19DueTimerFinding  = "c19-conn-loop-due-timer-not-serviced"
)

// c19FindingOpen reports whether KNOWN_FINDINGS.json lists key as an open finding of C19.
// (Spec.Known can only look at the case; the key-update deadlock depends on packet
// numbers that are only known at run time, so the property recognises its signature
// itself and skips such runs while the finding is open. Replays are never skipped.)
var c19FindingOpen = sync.OnceValue(func() map[string]bool {
	m := map[string]bool{}
	b, err := os.ReadFile(os.Getenv("VP_KNOWN"))
	if err != nil || os.Getenv("VP_REPLAY") != "" {
		return m
	}
	var kf struct {
		Findings []struct{ Key, Property, Status string }
	}
	if json.Unmarshal(b, &kf) == nil {
		for _, f := range kf.Findings {
			if f.Property == "C19" && f.Status == "open" {
				m[f.Key] = true
			}
		}
	}
	return m
})

func c19Prop(c c19Case, r *vp.Rec) error {
	c = c19Norm(c)
	if len(c.Streams) == 0 {
		r.Discard("no streams")
		return nil
	}
	return vp.Bubble(func(bt *testing.T) error { return c19RunCase(bt, c, r) })
}

func TestVP_C19(t *testing.T) {
	// One P: the goroutines of a bubble are then scheduled (almost) deterministically,
	// which makes runs repeatable for a given seed and replays and shrinking meaningful.
	defer runtime.GOMAXPROCS(runtime.GOMAXPROCS(1))
	vp.Run(t, vp.Spec[c19Case]{ID: "C19", CrashFile: true, Gen: c19Gen, Prop: c19Prop, Known: c19Known})
}
