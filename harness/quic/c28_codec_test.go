package quic

import (
	"bytes"
	"crypto/tls"
	"errors"
	"fmt"
	"net/netip"
	"sync"
	"testing"
	"time"

	"golang.org/x/net/internal/quic/quicwire"
	"pgregory.net/rapid"
	"verif/vp"
)

// C28: QUIC frame, packet and transport-parameter codecs round-trip safely.
//
// Four rapid checks and two native fuzz targets:
//   frames  - debugFrame*.write through a packetWriter of drawn size -> parseDebugFrame
//   packets - long-header and 1-RTT packets: protect -> unprotect, single-bit corruption
//   params  - transportParameters marshal -> unmarshal, out-of-range values rejected
//   decode  - arbitrary and mutated bytes into every parser

const (
	c28MaxVarint  = uint64(1)<<62 - 1
	c28MaxStreams = uint64(1) << 60 // RFC 9000 4.6 / 19.11 / 19.14
)

// ---- frames --------------------------------------------------------------------------------

type c28Frame struct {
	// T: padding padto ping ack reset stop crypto token stream maxdata maxsdata maxstreams
	//    datablocked sdatablocked streamsblocked newcid retirecid pathchal pathresp closet closea hsdone
	T    string     `json:"t"`
	A    uint64     `json:"a,omitempty"`
	B    uint64     `json:"b,omitempty"`
	C    uint64     `json:"c,omitempty"`
	Uni  bool       `json:"uni,omitempty"`
	Fin  bool       `json:"fin,omitempty"`
	Data []byte     `json:"data,omitempty"`
	Tok  []byte     `json:"tok,omitempty"` // 16 bytes (reset token) / first 8: path data
	Rng  [][2]int64 `json:"rng,omitempty"` // ack: ascending, disjoint, non-adjacent [start,end)
	ECN  [3]uint64  `json:"ecn,omitempty"`
}

func c28StreamType(uni bool) streamType {
	if uni {
		return uniStream
	}
	return bidiStream
}

// c28Make builds the debugFrame described by f.
func c28Make(f c28Frame) (debugFrame, error) {
	switch f.T {
	case "padding":
		return debugFramePadding{size: int(f.A)}, nil
	case "padto":
		return debugFramePadding{to: int(f.A)}, nil
	case "ping":
		return debugFramePing{}, nil
	case "ack":
		var rs []i64range[packetNumber]
		for _, r := range f.Rng {
			rs = append(rs, i64range[packetNumber]{packetNumber(r[0]), packetNumber(r[1])})
		}
		return debugFrameAck{ackDelay: unscaledAckDelay(f.A), ranges: rs,
			ecn: ecnCounts{t0: int(f.ECN[0]), t1: int(f.ECN[1]), ce: int(f.ECN[2])}}, nil
	case "reset":
		return debugFrameResetStream{id: streamID(f.A), code: f.B, finalSize: int64(f.C)}, nil
	case "stop":
		return debugFrameStopSending{id: streamID(f.A), code: f.B}, nil
	case "crypto":
		return debugFrameCrypto{off: int64(f.A), data: f.Data}, nil
	case "token":
		return debugFrameNewToken{token: f.Data}, nil
	case "stream":
		return debugFrameStream{id: streamID(f.A), off: int64(f.B), fin: f.Fin, data: f.Data}, nil
	case "maxdata":
		return debugFrameMaxData{max: int64(f.A)}, nil
	case "maxsdata":
		return debugFrameMaxStreamData{id: streamID(f.A), max: int64(f.B)}, nil
	case "maxstreams":
		return debugFrameMaxStreams{streamType: c28StreamType(f.Uni), max: int64(f.A)}, nil
	case "datablocked":
		return debugFrameDataBlocked{max: int64(f.A)}, nil
	case "sdatablocked":
		return debugFrameStreamDataBlocked{id: streamID(f.A), max: int64(f.B)}, nil
	case "streamsblocked":
		return debugFrameStreamsBlocked{streamType: c28StreamType(f.Uni), max: int64(f.A)}, nil
	case "newcid":
		var tok statelessResetToken
		copy(tok[:], f.Tok)
		return debugFrameNewConnectionID{seq: int64(f.A), retirePriorTo: int64(f.B), connID: f.Data, token: tok}, nil
	case "retirecid":
		return debugFrameRetireConnectionID{seq: int64(f.A)}, nil
	case "pathchal":
		var d pathChallengeData
		copy(d[:], f.Tok)
		return debugFramePathChallenge{data: d}, nil
	case "pathresp":
		var d pathChallengeData
		copy(d[:], f.Tok)
		return debugFramePathResponse{data: d}, nil
	case "closet":
		return debugFrameConnectionCloseTransport{code: transportError(f.A), frameType: f.B, reason: string(f.Data)}, nil
	case "closea":
		return debugFrameConnectionCloseApplication{code: f.A, reason: string(f.Data)}, nil
	case "hsdone":
		return debugFrameHandshakeDone{}, nil
	}
	return nil, fmt.Errorf("harness: unknown frame kind %q", f.T)
}

// c28Valid reports whether f lies in the domain the writer is documented (or
// observed) to accept; anything else would make the round-trip check unsound.
func c28Valid(f c28Frame) bool {
	v := func(xs ...uint64) bool {
		for _, x := range xs {
			if x > c28MaxVarint {
				return false
			}
		}
		return true
	}
	switch f.T {
	case "padding":
		return f.A >= 1 && f.A <= 1<<16
	case "padto":
		return f.A >= 1 && f.A <= 1<<16
	case "ack":
		if len(f.Rng) == 0 || !v(f.A, f.ECN[0], f.ECN[1], f.ECN[2]) {
			return false
		}
		prev := int64(-2)
		for _, r := range f.Rng {
			if r[0] < 0 || r[0] >= r[1] || r[1] > 1<<62 || r[0] <= prev {
				return false // ranges must be ascending with a gap of at least one number
			}
			prev = r[1]
		}
		return true
	case "stream":
		return v(f.A, f.B) && f.B+uint64(len(f.Data)) <= c28MaxVarint
	case "crypto":
		return v(f.A)
	case "token":
		return len(f.Data) >= 1 // an empty NEW_TOKEN is a FRAME_ENCODING_ERROR (RFC 9000 19.7)
	case "maxstreams", "streamsblocked":
		return f.A <= c28MaxStreams
	case "newcid":
		return v(f.A, f.B) && f.B <= f.A && len(f.Data) >= 1 && len(f.Data) <= 20 && len(f.Tok) == 16
	case "pathchal", "pathresp":
		return len(f.Tok) >= 8
	}
	return v(f.A, f.B, f.C)
}

// c28Canon renders a frame for comparison: nil and empty byte slices are equal and
// the write-only field of debugFramePadding is ignored.
func c28Canon(f debugFrame) string {
	if p, ok := f.(debugFramePadding); ok {
		p.to = 0
		f = p
	}
	return fmt.Sprintf("%T%+v", f, f)
}

func c28MultiByte(f c28Frame) bool {
	for _, x := range []uint64{f.A, f.B, f.C, f.ECN[0], f.ECN[1], f.ECN[2], uint64(len(f.Data))} {
		if x >= 64 {
			return true
		}
	}
	for _, r := range f.Rng {
		if r[1] > 64 {
			return true
		}
	}
	return false
}

// c28AckSize is the RFC 9000 19.3 encoded size of an ACK frame carrying the top n ranges.
func c28AckSize(f c28Frame, n int) int {
	rs := f.Rng
	top := rs[len(rs)-1]
	sz := 1 + quicwire.SizeVarint(uint64(top[1]-1)) + quicwire.SizeVarint(f.A) +
		quicwire.SizeVarint(uint64(n-1)) + quicwire.SizeVarint(uint64(top[1]-top[0]-1))
	for i := len(rs) - 2; i >= len(rs)-n; i-- {
		sz += quicwire.SizeVarint(uint64(rs[i+1][0]-rs[i][1]-1)) + quicwire.SizeVarint(uint64(rs[i][1]-rs[i][0]-1))
	}
	if f.ECN != [3]uint64{} {
		sz += quicwire.SizeVarint(f.ECN[0]) + quicwire.SizeVarint(f.ECN[1]) + quicwire.SizeVarint(f.ECN[2])
	}
	return sz
}

// c28Expect compares the frame parsed back (got) with what was asked to be written.
// avail is the room the writer had. Frames documented to shrink (STREAM and CRYPTO
// data, low ACK ranges, PADDING) may come back shortened; nothing else may.
func c28Expect(f c28Frame, got debugFrame, avail int, r *vp.Rec) error {
	want, err := c28Make(f)
	if err != nil {
		return err
	}
	switch f.T {
	case "padding", "padto":
		g, ok := got.(debugFramePadding)
		if !ok {
			return fmt.Errorf("wrote %v, parsed %v", want, got)
		}
		if f.T == "padding" && g.size > int(f.A) {
			return fmt.Errorf("wrote %v, parsed back %d bytes of padding", want, g.size)
		}
		return nil
	case "stream":
		g, ok := got.(debugFrameStream)
		if !ok {
			return fmt.Errorf("wrote %v, parsed %v", want, got)
		}
		k := len(g.data)
		if k > len(f.Data) {
			return fmt.Errorf("wrote %v, parsed %v with more data", want, got)
		}
		w := debugFrameStream{id: streamID(f.A), off: int64(f.B), fin: f.Fin && k == len(f.Data), data: f.Data[:k]}
		if c28Canon(w) != c28Canon(g) {
			return fmt.Errorf("wrote %v (data %x), parsed %v (data %x)", want, f.Data, g, g.data)
		}
		if k < len(f.Data) {
			r.Class("frames:stream-data-shortened")
		}
		return nil
	case "crypto":
		g, ok := got.(debugFrameCrypto)
		if !ok {
			return fmt.Errorf("wrote %v, parsed %v", want, got)
		}
		k := len(g.data)
		if k > len(f.Data) {
			return fmt.Errorf("wrote %v, parsed %v with more data", want, got)
		}
		w := debugFrameCrypto{off: int64(f.A), data: f.Data[:k]}
		if c28Canon(w) != c28Canon(g) {
			return fmt.Errorf("wrote %v (data %x), parsed %v (data %x)", want, f.Data, g, g.data)
		}
		if k < len(f.Data) {
			r.Class("frames:crypto-data-shortened")
		}
		return nil
	case "ack":
		g, ok := got.(debugFrameAck)
		if !ok {
			return fmt.Errorf("wrote %v, parsed %v", want, got)
		}
		wa := want.(debugFrameAck)
		k := len(g.ranges)
		if k < 1 || k > len(wa.ranges) {
			return fmt.Errorf("wrote %v, parsed %v", want, got)
		}
		// appendAckFrame keeps the ranges with the largest numbers.
		w := debugFrameAck{ackDelay: wa.ackDelay, ranges: wa.ranges[len(wa.ranges)-k:], ecn: wa.ecn}
		if c28Canon(w) != c28Canon(g) {
			return fmt.Errorf("wrote %v, parsed %v (want the top %d ranges: %v)", want, g, k, w)
		}
		if k < len(wa.ranges) {
			r.Class("frames:ack-ranges-dropped")
			if len(wa.ranges) <= 64 && c28AckSize(f, len(wa.ranges)) <= avail {
				return fmt.Errorf("wrote %v with %d bytes available (needs %d), but only %d of %d ranges were emitted",
					want, avail, c28AckSize(f, len(wa.ranges)), k, len(wa.ranges))
			}
		}
		return nil
	}
	if c28Canon(want) != c28Canon(got) {
		return fmt.Errorf("wrote %v, parsed %v", c28Canon(want), c28Canon(got))
	}
	return nil
}

type c28FramesCase struct {
	Long   bool       `json:"long"` // Initial packet instead of 1-RTT
	Lim    int        `json:"lim"`  // datagram size limit
	CID    int        `json:"cid"`  // destination connection ID length
	Tok    int        `json:"tok"`  // Initial: token length
	D      int64      `json:"d"`    // packet number minus largest acked (selects the number length)
	Frames []c28Frame `json:"frames"`
}

func c28StartPacket(w *packetWriter, long bool, lim, cid, tok int, d int64) {
	w.reset(lim)
	pnum := packetNumber(d - 1)
	dst := bytes.Repeat([]byte{0xc1}, cid)
	if long {
		w.startProtectedLongHeaderPacket(-1, longPacket{
			ptype: packetTypeInitial, version: quicVersion1, num: pnum,
			dstConnID: dst, srcConnID: []byte{1, 2, 3}, extra: bytes.Repeat([]byte{0x77}, tok),
		})
	} else {
		w.start1RTTPacket(pnum, -1, dst)
	}
}

func c28FramesProp(c c28FramesCase, r *vp.Rec) error {
	if c.Lim < 0 || c.Lim > 1<<16 || c.CID < 0 || c.CID > 20 || c.D < 1 {
		return fmt.Errorf("harness: bad case")
	}
	for _, f := range c.Frames {
		if !c28Valid(f) {
			r.Discard("frame outside the writer's domain: " + f.T)
			return nil
		}
	}
	var w packetWriter
	c28StartPacket(&w, c.Long, c.Lim, c.CID, c.Tok, c.D)
	if w.pktLim > c.Lim {
		return fmt.Errorf("packet limit %d beyond the datagram limit %d", w.pktLim, c.Lim)
	}
	type rec struct {
		off, n, avail int
		f             c28Frame
	}
	var recs []rec
	nontrivial := false
	for i, f := range c.Frames {
		df, err := c28Make(f)
		if err != nil {
			return err
		}
		before := len(w.b)
		avail := w.avail()
		added := df.write(&w)
		after := len(w.b)
		if after > w.pktLim && after > before {
			return fmt.Errorf("frame %d (%v): payload grew to offset %d beyond the packet limit %d", i, df, after, w.pktLim)
		}
		if after < before {
			return fmt.Errorf("frame %d (%v): write shrank the packet from %d to %d", i, df, before, after)
		}
		if !added {
			if after != before {
				return fmt.Errorf("frame %d (%v): write reported the frame as not added but emitted %d bytes (%x)", i, df, after-before, w.b[before:after])
			}
			r.Class("frames:refused")
			continue
		}
		if after == before {
			if f.T == "padding" || f.T == "padto" {
				continue // nothing to pad
			}
			return fmt.Errorf("frame %d (%v): write reported success but emitted nothing", i, df)
		}
		r.Class("frames:written:" + f.T)
		if c28MultiByte(f) {
			nontrivial = true
		}
		if n := len(recs); n > 0 && (f.T == "padding" || f.T == "padto") &&
			(recs[n-1].f.T == "padding" || recs[n-1].f.T == "padto") && recs[n-1].off+recs[n-1].n == before {
			// adjacent PADDING frames are one run on the wire
			recs[n-1].n += after - before
			recs[n-1].f = c28Frame{T: "padto"}
			continue
		}
		recs = append(recs, rec{before, after - before, avail, f})
	}
	// Parse every emitted frame in place, with the following frames behind it.
	all := w.b
	for _, rc := range recs {
		df, _ := c28Make(rc.f)
		got, n := parseDebugFrame(all[rc.off:])
		if n != rc.n {
			return fmt.Errorf("frame %v was written as %d bytes (%x) but parseDebugFrame consumed %d and returned %v",
				df, rc.n, all[rc.off:rc.off+rc.n], n, got)
		}
		if err := c28Expect(rc.f, got, rc.avail, r); err != nil {
			return fmt.Errorf("%v [wire %x]", err, all[rc.off:rc.off+rc.n])
		}
	}
	if len(recs) == 0 {
		r.Class("frames:nothing-fits")
	}
	if nontrivial {
		r.NonTrivial()
	}
	if c.Long {
		r.Class("frames:in-initial-packet")
	} else {
		r.Class("frames:in-1rtt-packet")
	}
	return nil
}

// ---- generators for frames ----------------------------------------------------------------

// c28Varint draws a value <= max covering all four varint size classes and their edges.
func c28Varint(max uint64) *rapid.Generator[uint64] {
	return rapid.Custom(func(t *rapid.T) uint64 {
		var v uint64
		switch int(rapid.Byte().Draw(t, "class")) % 10 {
		case 0, 1, 2:
			v = rapid.Uint64Range(0, 63).Draw(t, "v1")
		case 3, 4:
			v = rapid.Uint64Range(64, 16383).Draw(t, "v2")
		case 5, 6:
			v = rapid.Uint64Range(16384, 1<<30-1).Draw(t, "v4")
		case 7:
			v = rapid.Uint64Range(1<<30, c28MaxVarint).Draw(t, "v8")
		default:
			e := rapid.SampledFrom([]uint64{0, 63, 64, 16383, 16384, 1<<30 - 1, 1 << 30, 1 << 60, c28MaxVarint}).Draw(t, "edge")
			d := rapid.Uint64Range(0, 2).Draw(t, "d")
			if e >= d {
				v = e - d
			} else {
				v = e
			}
		}
		if v > max {
			v = max - min(v%3, max)
		}
		return v
	})
}

func c28DataGen(maxLen int) *rapid.Generator[[]byte] {
	return rapid.Custom(func(t *rapid.T) []byte {
		var n int
		switch int(rapid.Byte().Draw(t, "lenclass")) % 8 {
		case 0:
			n = 0
		case 1, 2, 3:
			n = rapid.IntRange(1, 20).Draw(t, "n")
		case 4, 5:
			n = rapid.IntRange(21, 200).Draw(t, "n")
		case 6:
			n = rapid.SampledFrom([]int{62, 63, 64, 65, 255, 256}).Draw(t, "n")
		default:
			n = rapid.IntRange(201, maxLen).Draw(t, "n")
		}
		if n > maxLen {
			n = maxLen
		}
		seed := rapid.Byte().Draw(t, "fill")
		b := make([]byte, n)
		for i := range b {
			b[i] = seed + byte(i*7)
		}
		if n > 0 && n <= 24 {
			b = rapid.SliceOfN(rapid.Byte(), n, n).Draw(t, "bytes")
		}
		return b
	})
}

var c28Kinds = []string{
	"ack", "stream", "crypto", "padding", "padto", "ping", "reset", "stop", "token", "maxdata", "maxsdata",
	"maxstreams", "datablocked", "sdatablocked", "streamsblocked", "newcid", "retirecid", "pathchal",
	"pathresp", "closet", "closea", "hsdone",
}

func c28FrameGen() *rapid.Generator[c28Frame] {
	return rapid.Custom(func(t *rapid.T) c28Frame {
		k := int(rapid.Byte().Draw(t, "kind")) % (len(c28Kinds) + 6)
		if k >= len(c28Kinds) {
			k = (k - len(c28Kinds)) % 3 // extra weight on ack, stream, crypto
		}
		f := c28Frame{T: c28Kinds[k]}
		vi := c28Varint(c28MaxVarint)
		switch f.T {
		case "padding":
			f.A = uint64(rapid.IntRange(1, 64).Draw(t, "size"))
		case "padto":
			f.A = uint64(vp.BiasedInt(1, 1600, 16, 17, 1200).Draw(t, "to"))
		case "ack":
			f.A = vi.Draw(t, "delay")
			n := 1
			switch int(rapid.Byte().Draw(t, "nrclass")) % 8 {
			case 0, 1:
				n = 1
			case 2, 3, 4:
				n = rapid.IntRange(2, 5).Draw(t, "nr")
			case 5, 6:
				n = rapid.IntRange(6, 40).Draw(t, "nr")
			default:
				n = rapid.IntRange(41, 80).Draw(t, "nr")
			}
			// build ascending from a base with drawn gaps and sizes
			wide := rapid.Bool().Draw(t, "wide")
			base := int64(0)
			if wide {
				base = int64(c28Varint(1<<61).Draw(t, "base"))
			} else {
				base = rapid.Int64Range(0, 100).Draw(t, "base")
			}
			pos := base
			small := rapid.Int64Range(1, 70)
			for i := 0; i < n; i++ {
				var size, gap int64
				if wide && i%5 == 0 {
					size = int64(c28Varint(1<<40).Draw(t, "size")) + 1
					gap = int64(c28Varint(1<<40).Draw(t, "gap")) + 1
				} else {
					size = small.Draw(t, "size")
					gap = small.Draw(t, "gap")
				}
				if i > 0 {
					pos += gap
				}
				if pos+size > 1<<62 {
					break
				}
				f.Rng = append(f.Rng, [2]int64{pos, pos + size})
				pos += size
			}
			if len(f.Rng) == 0 {
				f.Rng = [][2]int64{{0, 1}}
			}
			if rapid.Bool().Draw(t, "ecn") {
				f.ECN = [3]uint64{vi.Draw(t, "t0"), vi.Draw(t, "t1"), vi.Draw(t, "ce")}
			}
		case "reset":
			f.A, f.B, f.C = vi.Draw(t, "id"), vi.Draw(t, "code"), vi.Draw(t, "final")
		case "stop":
			f.A, f.B = vi.Draw(t, "id"), vi.Draw(t, "code")
		case "crypto":
			f.A = vi.Draw(t, "off")
			f.Data = c28DataGen(1200).Draw(t, "data")
		case "token":
			f.Data = c28DataGen(300).Draw(t, "token")
			if len(f.Data) == 0 {
				f.Data = []byte{0x5a}
			}
		case "stream":
			f.A = vi.Draw(t, "id")
			f.Data = c28DataGen(1200).Draw(t, "data")
			if rapid.Bool().Draw(t, "hasoff") {
				f.B = c28Varint(c28MaxVarint-uint64(len(f.Data))).Draw(t, "off")
			}
			f.Fin = rapid.Bool().Draw(t, "fin")
		case "maxdata", "datablocked", "retirecid":
			f.A = vi.Draw(t, "v")
		case "maxsdata", "sdatablocked":
			f.A, f.B = vi.Draw(t, "id"), vi.Draw(t, "max")
		case "maxstreams", "streamsblocked":
			f.Uni = rapid.Bool().Draw(t, "uni")
			f.A = c28Varint(c28MaxStreams).Draw(t, "max")
		case "newcid":
			f.A = vi.Draw(t, "seq")
			f.B = c28Varint(f.A).Draw(t, "retire")
			f.Data = rapid.SliceOfN(rapid.Byte(), 1, 20).Draw(t, "cid")
			f.Tok = rapid.SliceOfN(rapid.Byte(), 16, 16).Draw(t, "tok")
		case "pathchal", "pathresp":
			f.Tok = rapid.SliceOfN(rapid.Byte(), 8, 8).Draw(t, "data")
		case "closet":
			f.A, f.B = vi.Draw(t, "code"), vi.Draw(t, "ftype")
			f.Data = c28DataGen(300).Draw(t, "reason")
		case "closea":
			f.A = vi.Draw(t, "code")
			f.Data = c28DataGen(300).Draw(t, "reason")
		}
		return f
	})
}

func c28LimGen() *rapid.Generator[int] {
	return rapid.Custom(func(t *rapid.T) int {
		switch int(rapid.Byte().Draw(t, "limclass")) % 16 {
		case 0:
			return rapid.IntRange(0, 60).Draw(t, "lim") // around "no room for any packet"
		case 1, 2, 3:
			return rapid.IntRange(40, 200).Draw(t, "lim")
		case 4, 5, 6, 7, 8, 9, 10:
			return rapid.IntRange(200, 1500).Draw(t, "lim")
		case 11, 12:
			return 1200
		case 13, 14:
			return rapid.IntRange(1500, 9000).Draw(t, "lim")
		default:
			return rapid.IntRange(16300, 17000).Draw(t, "lim") // long-header length field cap
		}
	})
}

func c28DGen() *rapid.Generator[int64] {
	return rapid.Custom(func(t *rapid.T) int64 {
		if rapid.Bool().Draw(t, "edge") {
			e := rapid.SampledFrom([]int64{1, 0x80, 0x8000, 0x800000, 1<<31 - 1}).Draw(t, "e")
			d := e + rapid.Int64Range(-1, 1).Draw(t, "delta")
			if d < 1 {
				d = 1
			}
			if d > 1<<31-1 {
				d = 1<<31 - 1
			}
			return d
		}
		return rapid.Int64Range(1, 1<<31-1).Draw(t, "d")
	})
}

func c28FramesGen(t *rapid.T) c28FramesCase {
	c := c28FramesCase{
		Long: int(rapid.Byte().Draw(t, "long"))%4 == 0,
		Lim:  c28LimGen().Draw(t, "lim"),
		CID:  rapid.SampledFrom([]int{0, 8, 8, 1, 4, 20}).Draw(t, "cid"),
		D:    c28DGen().Draw(t, "d"),
	}
	if c.Long {
		c.Tok = rapid.SampledFrom([]int{0, 0, 16, 63, 64, 100}).Draw(t, "tok")
	}
	c.Frames = rapid.SliceOfN(c28FrameGen(), 1, 12).Draw(t, "frames")
	return c
}

func TestVP_C28_frames(t *testing.T) {
	vp.Run(t, vp.Spec[c28FramesCase]{ID: "C28", Sub: "frames", Gen: c28FramesGen, Prop: c28FramesProp})
}

// ---- ACK frames through the production parser ---------------------------------------------

// c28AckCase: one ACK frame written by appendAckFrame into a packet with Room bytes of
// payload space, read back with consumeAckFrame (the parser Conn uses).
type c28AckCase struct {
	Room int      `json:"room"`
	F    c28Frame `json:"f"`
}

func c28AckProp(c c28AckCase, r *vp.Rec) error {
	if c.F.T != "ack" || !c28Valid(c.F) || c.Room < 0 || c.Room > 1<<16 {
		return fmt.Errorf("harness: bad case")
	}
	df, _ := c28Make(c.F)
	want := df.(debugFrameAck)
	var w packetWriter
	w.reset(c.Room + 1 + 1 + aeadOverhead + 64)
	w.start1RTTPacket(0, -1, nil)
	w.pktLim = w.payOff + c.Room // as packet_codec_test.go does
	added := df.write(&w)
	enc := w.payload()
	if len(enc) > c.Room {
		return fmt.Errorf("%v: %d bytes written with room for %d", want, len(enc), c.Room)
	}
	if !added {
		if len(enc) != 0 {
			return fmt.Errorf("%v: refused but %d bytes emitted", want, len(enc))
		}
		r.Class("ack:refused")
		return nil
	}
	var got []i64range[packetNumber]
	idx := 0
	var orderErr error
	buf := append(append([]byte(nil), enc...), 0x01, 0x01) // followed by other frames
	largest, delay, ecn, n := consumeAckFrame(buf, func(i int, start, end packetNumber) {
		if i != idx && orderErr == nil {
			orderErr = fmt.Errorf("range index %d delivered as callback %d", i, idx)
		}
		idx++
		got = append(got, i64range[packetNumber]{start, end})
	})
	if orderErr != nil {
		return orderErr
	}
	if n != len(enc) {
		return fmt.Errorf("%v written as %x, consumeAckFrame consumed %d", want, enc, n)
	}
	k := len(got)
	if k < 1 || k > len(want.ranges) {
		return fmt.Errorf("%v written as %x, read back %d ranges %v", want, enc, k, got)
	}
	for i, g := range got { // delivered from the highest range downwards
		if w := want.ranges[len(want.ranges)-1-i]; g != w {
			return fmt.Errorf("%v written as %x: range %d read back as [%d,%d), want [%d,%d)", want, enc, i, g.start, g.end, w.start, w.end)
		}
	}
	if largest != want.ranges[len(want.ranges)-1].end-1 || delay != want.ackDelay || ecn != want.ecn {
		return fmt.Errorf("%v written as %x: read back largest %d delay %d ecn %v", want, enc, largest, delay, ecn)
	}
	if k < len(want.ranges) {
		r.Class("ack:low-ranges-dropped")
		if len(want.ranges) <= 64 && c28AckSize(c.F, len(want.ranges)) <= c.Room {
			return fmt.Errorf("%v with room %d (needs %d): only %d of %d ranges emitted", want, c.Room, c28AckSize(c.F, len(want.ranges)), k, len(want.ranges))
		}
	} else {
		r.Class("ack:complete")
	}
	if k >= 4 {
		r.NonTrivial()
	}
	if want.ecn != (ecnCounts{}) {
		r.Class("ack:ecn")
	}
	return nil
}

func c28AckGen(t *rapid.T) c28AckCase {
	var f c28Frame
	for f.T != "ack" { // the frame generator gives ACK frames extra weight
		f = c28FrameGen().Draw(t, "f")
	}
	c := c28AckCase{F: f}
	full := c28AckSize(f, len(f.Rng))
	switch int(rapid.Byte().Draw(t, "roomclass")) % 4 {
	case 0:
		c.Room = full + rapid.IntRange(0, 20).Draw(t, "slack")
	case 1:
		c.Room = max(0, full-rapid.IntRange(1, 12).Draw(t, "short"))
	case 2:
		c.Room = rapid.IntRange(0, full).Draw(t, "room")
	default:
		c.Room = 1200
	}
	return c
}

func TestVP_C28_ack(t *testing.T) {
	vp.Run(t, vp.Spec[c28AckCase]{ID: "C28", Sub: "ack", Gen: c28AckGen, Prop: c28AckProp})
}

// ---- packets -------------------------------------------------------------------------------

type c28PktCase struct {
	Kind    int    `json:"kind"` // 0 Initial, 1 0-RTT, 2 Handshake, 3 1-RTT
	Version uint32 `json:"version"`
	DCID    []byte `json:"dcid"`
	SCID    []byte `json:"scid"`
	Token   []byte `json:"token"`
	PNum    int64  `json:"pnum"`
	D       int64  `json:"d"`    // pnum - largest acked, 1 <= D < 2^31 (largest acked may be -1)
	LOff    int64  `json:"loff"` // receiver's largest received = max(acked,0) + LOff (clipped below pnum)
	Payload []byte `json:"payload"`
	Suite   int    `json:"suite"` // 0 AES128, 1 AES256, 2 ChaCha20
	Secret  []byte `json:"secret"`
	Lim     int    `json:"lim"`
	Pre     bool   `json:"pre"`     // a small Initial packet precedes the packet in the datagram
	Trailer []byte `json:"trailer"` // bytes following a long-header packet in the datagram
	Flips   []int  `json:"flips"`   // bit positions (modulo the packet's bit length) to corrupt
	KeyUpd  bool   `json:"keyupd"`  // 1-RTT: the sender has initiated a key update
	Phase   bool   `json:"phase"`   // 1-RTT: both sides have completed one key update already
}

var c28Suites = []uint16{tls.TLS_AES_128_GCM_SHA256, tls.TLS_AES_256_GCM_SHA384, tls.TLS_CHACHA20_POLY1305_SHA256}

func c28PktProp(c c28PktCase, r *vp.Rec) error {
	if c.Kind < 0 || c.Kind > 3 || c.Suite < 0 || c.Suite > 2 || len(c.DCID) > 20 || len(c.SCID) > 20 ||
		c.D < 1 || c.D >= 1<<31 || c.PNum < 0 || c.PNum > int64(maxPacketNumber) || c.PNum-c.D < -1 ||
		c.Lim < 0 || c.Lim > 1<<16 || (c.Kind != 3 && c.Version == 0) {
		return fmt.Errorf("harness: bad case")
	}
	suite := c28Suites[c.Suite]
	pnum := packetNumber(c.PNum)
	acked := packetNumber(c.PNum - c.D)
	pnumMax := max(acked, 0) + packetNumber(c.LOff)
	if pnumMax >= pnum {
		pnumMax = max(pnum-1, 0)
	}
	if pnumMax < max(acked, 0) {
		pnumMax = max(acked, 0)
	}
	var fk fixedKeys
	fk.init(suite, c.Secret)
	newShort := func() *updatingKeyPair {
		k := &updatingKeyPair{}
		k.r.init(suite, c.Secret)
		k.w.init(suite, c.Secret)
		k.updateAfter = maxPacketNumber
		if c.Phase {
			k.phase = keyPhaseBit
			k.r.update()
			k.w.update()
		}
		return k
	}

	var w packetWriter
	w.reset(c.Lim)
	if c.Pre {
		pre := longPacket{ptype: packetTypeInitial, version: quicVersion1, num: 0, dstConnID: []byte{9, 9}, srcConnID: nil}
		w.startProtectedLongHeaderPacket(-1, pre)
		if w.avail() >= 3 {
			w.b = append(w.b, frameTypePing, 0, 0)
		}
		if s := w.finishProtectedLongHeaderPacket(-1, initialKeys([]byte{9, 9}, clientSide).w, pre); s != nil {
			s.recycle()
		}
	}
	pktOff := len(w.b)
	ptype := [...]packetType{packetTypeInitial, packetType0RTT, packetTypeHandshake, packetType1RTT}[c.Kind]
	lp := longPacket{ptype: ptype, version: c.Version, num: pnum, dstConnID: c.DCID, srcConnID: c.SCID}
	if c.Kind == 0 {
		lp.extra = c.Token
	}
	if c.Kind == 3 {
		w.start1RTTPacket(pnum, acked, c.DCID)
	} else {
		w.startProtectedLongHeaderPacket(acked, lp)
	}
	payload := c.Payload
	if a := w.avail(); a < len(payload) {
		if a < 0 {
			return fmt.Errorf("avail() = %d", a)
		}
		payload = payload[:a]
		r.Class("packets:payload-clipped-to-limit")
	}
	w.b = append(w.b, payload...)
	var sent *sentPacket
	wk := newShort()
	if c.Kind == 3 {
		if c.KeyUpd {
			wk.updating = true
			wk.minSent = maxPacketNumber
		}
		sent = w.finish1RTTPacket(pnum, acked, c.DCID, wk)
	} else {
		sent = w.finishProtectedLongHeaderPacket(acked, fk, lp)
	}
	dgram := w.datagram()
	if len(dgram) > c.Lim {
		return fmt.Errorf("datagram of %d bytes exceeds the limit %d", len(dgram), c.Lim)
	}
	if len(payload) == 0 {
		if sent != nil || len(dgram) != pktOff {
			return fmt.Errorf("empty payload: packet not abandoned (sent=%v, datagram grew by %d)", sent != nil, len(dgram)-pktOff)
		}
		r.Class("packets:no-room-or-empty")
		return nil
	}
	if sent == nil {
		return fmt.Errorf("finish returned nil for a packet with %d payload bytes", len(payload))
	}
	pkt := append([]byte(nil), dgram[pktOff:]...)
	if sent.size != len(pkt) || sent.num != pnum || sent.ptype != ptype {
		return fmt.Errorf("sentPacket says size %d num %d type %v, wrote %d bytes num %d type %v", sent.size, sent.num, sent.ptype, len(pkt), pnum, ptype)
	}
	sent.recycle()

	checkPayload := func(got []byte) error {
		if len(got) < len(payload) || !bytes.Equal(got[:len(payload)], payload) {
			return fmt.Errorf("payload differs: sent %x, got %x", payload, got)
		}
		for _, b := range got[len(payload):] {
			if b != 0 {
				return fmt.Errorf("payload followed by non-PADDING bytes: sent %x, got %x", payload, got)
			}
		}
		if len(got) > len(payload) {
			if len(got) > 19 { // 4 + sample size - 1-byte packet number
				return fmt.Errorf("payload of %d bytes was padded to %d", len(payload), len(got))
			}
			r.Class("packets:padded-for-sample")
		}
		return nil
	}

	nbits := 8 * len(pkt)
	if c.Kind == 3 {
		p, err := parse1RTTPacket(append([]byte(nil), pkt...), newShort(), len(c.DCID), pnumMax)
		if err != nil {
			return fmt.Errorf("1-RTT packet %x does not unprotect: %v", pkt, err)
		}
		if p.num != pnum {
			return fmt.Errorf("1-RTT packet number: sent %d (largest acked %d), receiver with largest %d decoded %d", pnum, acked, pnumMax, p.num)
		}
		if err := checkPayload(p.payload); err != nil {
			return err
		}
		for _, f := range c.Flips {
			bit := ((f % nbits) + nbits) % nbits
			bad := append([]byte(nil), pkt...)
			bad[bit/8] ^= 1 << (bit % 8)
			if p, err := parse1RTTPacket(bad, newShort(), len(c.DCID), pnumMax); err == nil {
				return fmt.Errorf("1-RTT packet with bit %d flipped was accepted (num %d, payload %x)", bit, p.num, p.payload)
			}
			r.Class("packets:bitflip-rejected")
		}
	} else {
		buf := append(append([]byte(nil), pkt...), c.Trailer...)
		p, n := parseLongHeaderPacket(buf, fk, pnumMax)
		if n != len(pkt) {
			return fmt.Errorf("long-header packet of %d bytes (+%d trailing): parse consumed %d", len(pkt), len(c.Trailer), n)
		}
		if p.ptype != ptype || p.version != c.Version || !bytes.Equal(p.dstConnID, c.DCID) || !bytes.Equal(p.srcConnID, c.SCID) {
			return fmt.Errorf("header fields differ: sent type %v version %#x dcid %x scid %x, got type %v version %#x dcid %x scid %x",
				ptype, c.Version, c.DCID, c.SCID, p.ptype, p.version, p.dstConnID, p.srcConnID)
		}
		if p.num != pnum {
			return fmt.Errorf("packet number: sent %d (largest acked %d), receiver with largest %d decoded %d", pnum, acked, pnumMax, p.num)
		}
		if !bytes.Equal(p.extra, lp.extra) {
			return fmt.Errorf("token differs: sent %x, got %x", lp.extra, p.extra)
		}
		if err := checkPayload(p.payload); err != nil {
			return err
		}
		buf = append(append([]byte(nil), pkt...), c.Trailer...)
		if n := skipLongHeaderPacket(buf); n != len(pkt) {
			return fmt.Errorf("skipLongHeaderPacket = %d for a packet of %d bytes", n, len(pkt))
		}
		if _, n := parseLongHeaderPacket(buf, fixedKeys{}, 0); n != len(pkt) {
			return fmt.Errorf("header-only parse consumed %d of a %d byte packet", n, len(pkt))
		}
		for _, f := range c.Flips {
			bit := ((f % nbits) + nbits) % nbits
			bad := append(append([]byte(nil), pkt...), c.Trailer...)
			bad[bit/8] ^= 1 << (bit % 8)
			p, n := parseLongHeaderPacket(bad, fk, pnumMax)
			if n >= 0 && p.ptype != packetTypeRetry {
				// (a header whose type bits now say Retry is not a protected packet; Retry
				// integrity is checked elsewhere)
				return fmt.Errorf("long-header packet with bit %d flipped was accepted (n=%d type %v num %d payload %x)", bit, n, p.ptype, p.num, p.payload)
			}
			if n > len(bad) {
				return fmt.Errorf("parse consumed %d of %d bytes", n, len(bad))
			}
			r.Class("packets:bitflip-rejected")
		}
	}
	r.Class([...]string{"packets:initial", "packets:0rtt", "packets:handshake", "packets:1rtt"}[c.Kind])
	r.Classf("packets:pnumlen-%d", packetNumberLength(pnum, acked))
	r.Class([...]string{"packets:aes128", "packets:aes256", "packets:chacha20"}[c.Suite])
	if l := len(c.DCID); l != 0 && l != 8 {
		r.NonTrivial()
	}
	return nil
}

func c28PktGen(t *rapid.T) c28PktCase {
	c := c28PktCase{
		Kind:    int(rapid.Byte().Draw(t, "kind")) % 4,
		Version: rapid.SampledFrom([]uint32{1, 1, 0x11223344, 0xffffffff, 0x6b3343cf, 2, 0x80000000}).Draw(t, "version"),
		Suite:   int(rapid.Byte().Draw(t, "suite")) % 3,
		Secret:  rapid.SliceOfN(rapid.Byte(), 0, 48).Draw(t, "secret"),
		D:       c28DGen().Draw(t, "d"),
		Lim:     c28LimGen().Draw(t, "lim"),
		Pre:     int(rapid.Byte().Draw(t, "pre"))%4 == 0,
		KeyUpd:  int(rapid.Byte().Draw(t, "keyupd"))%4 == 0,
		Phase:   int(rapid.Byte().Draw(t, "phase"))%4 == 0,
	}
	cidLen := rapid.Custom(func(t *rapid.T) int {
		switch int(rapid.Byte().Draw(t, "cidclass")) % 6 {
		case 0:
			return 0
		case 1:
			return 8
		case 2:
			return 20
		default:
			return rapid.IntRange(0, 20).Draw(t, "cidlen")
		}
	})
	c.DCID = rapid.SliceOfN(rapid.Byte(), 0, 20).Draw(t, "dcid")
	if n := cidLen.Draw(t, "dn"); n <= len(c.DCID) {
		c.DCID = c.DCID[:n]
	} else {
		c.DCID = append(c.DCID, make([]byte, n-len(c.DCID))...)
	}
	if c.Kind != 3 {
		c.SCID = rapid.SliceOfN(rapid.Byte(), 0, 20).Draw(t, "scid")
		c.Trailer = rapid.SliceOfN(rapid.Byte(), 0, 40).Draw(t, "trailer")
		if int(rapid.Byte().Draw(t, "notrailer"))%2 == 0 {
			c.Trailer = nil
		}
	}
	if c.Kind == 0 {
		c.Token = c28DataGen(300).Draw(t, "token")
	}
	// packet number: D fixes the distance to the largest acked
	var pn int64
	switch int(rapid.Byte().Draw(t, "pnclass")) % 4 {
	case 0:
		pn = c.D - 1 // nothing acked yet
	case 1:
		pn = c.D - 1 + rapid.Int64Range(0, 1000).Draw(t, "pn")
	case 2:
		pn = int64(maxPacketNumber) - rapid.Int64Range(0, 1000).Draw(t, "pn")
	default:
		pn = c.D - 1 + rapid.Int64Range(0, int64(maxPacketNumber)-c.D+1).Draw(t, "pn")
	}
	if pn < c.D-1 {
		pn = c.D - 1
	}
	c.PNum = pn
	switch int(rapid.Byte().Draw(t, "loffclass")) % 3 {
	case 0:
		c.LOff = 0
	case 1:
		c.LOff = c.D // clipped to pnum-1
	default:
		c.LOff = rapid.Int64Range(0, c.D).Draw(t, "loff")
	}
	c.Payload = c28DataGen(1400).Draw(t, "payload")
	if len(c.Payload) == 0 && rapid.Bool().Draw(t, "nonempty") {
		c.Payload = []byte{frameTypePing}
	}
	c.Flips = rapid.SliceOfN(rapid.IntRange(0, 1<<20), 0, 6).Draw(t, "flips")
	if rapid.Bool().Draw(t, "headflip") {
		c.Flips = append(c.Flips, rapid.IntRange(0, 8*40).Draw(t, "hf"))
	}
	return c
}

func TestVP_C28_packets(t *testing.T) {
	vp.Run(t, vp.Spec[c28PktCase]{ID: "C28", Sub: "packets", Gen: c28PktGen, Prop: c28PktProp})
}

// ---- transport parameters ------------------------------------------------------------------

type c28Pref struct {
	V4  []byte `json:"v4"` // 4 bytes
	P4  uint16 `json:"p4"`
	V6  []byte `json:"v6"` // 16 bytes
	P6  uint16 `json:"p6"`
	CID []byte `json:"cid"` // 1..20
	Tok []byte `json:"tok"` // 16
}

type c28Params struct {
	HasODCID bool     `json:"has_odcid,omitempty"`
	ODCID    []byte   `json:"odcid,omitempty"`
	IdleMS   uint64   `json:"idle_ms,omitempty"`
	ResetTok []byte   `json:"reset_tok,omitempty"` // nil or 16 bytes
	MaxUDP   uint64   `json:"max_udp"`
	MaxData  uint64   `json:"max_data,omitempty"`
	SDBL     uint64   `json:"sdbl,omitempty"`
	SDBR     uint64   `json:"sdbr,omitempty"`
	SDU      uint64   `json:"sdu,omitempty"`
	SBidi    uint64   `json:"sbidi,omitempty"`
	SUni     uint64   `json:"suni,omitempty"`
	AckExp   int      `json:"ack_exp"`
	MaxAckMS uint64   `json:"max_ack_ms"`
	NoMig    bool     `json:"no_mig,omitempty"`
	Pref     *c28Pref `json:"pref,omitempty"`
	ActLimit uint64   `json:"act_limit"`
	HasISCID bool     `json:"has_iscid,omitempty"`
	ISCID    []byte   `json:"iscid,omitempty"`
	HasRSCID bool     `json:"has_rscid,omitempty"`
	RSCID    []byte   `json:"rscid,omitempty"`
}

type c28ParamsCase struct {
	P c28Params `json:"p"`
	// Bad, if set, is one extra parameter (id, varint value) outside the range the
	// statement lists; it is put in front of (Front) or behind the valid encoding.
	BadID  uint64 `json:"bad_id,omitempty"`
	BadVal uint64 `json:"bad_val,omitempty"`
	Bad    bool   `json:"bad,omitempty"`
	Front  bool   `json:"front,omitempty"`
	Wide   bool   `json:"wide,omitempty"` // encode the bad value as an 8-byte varint
}

func c28NonNil(has bool, b []byte) []byte {
	if !has {
		return nil
	}
	if b == nil {
		return []byte{}
	}
	return b
}

func (p c28Params) build() (transportParameters, error) {
	if p.MaxUDP < 1200 || p.MaxUDP > c28MaxVarint || p.AckExp < 0 || p.AckExp > 20 || p.MaxAckMS >= 1<<14 ||
		p.SBidi > c28MaxStreams || p.SUni > c28MaxStreams || p.ActLimit < 2 || p.ActLimit > c28MaxVarint ||
		p.IdleMS > 1<<32 || p.MaxData > c28MaxVarint || p.SDBL > c28MaxVarint || p.SDBR > c28MaxVarint || p.SDU > c28MaxVarint ||
		(p.ResetTok != nil && len(p.ResetTok) != 16) {
		return transportParameters{}, errors.New("harness: parameters outside the valid domain")
	}
	tp := transportParameters{
		originalDstConnID:              c28NonNil(p.HasODCID, p.ODCID),
		maxIdleTimeout:                 time.Duration(p.IdleMS) * time.Millisecond,
		statelessResetToken:            p.ResetTok,
		maxUDPPayloadSize:              int64(p.MaxUDP),
		initialMaxData:                 int64(p.MaxData),
		initialMaxStreamDataBidiLocal:  int64(p.SDBL),
		initialMaxStreamDataBidiRemote: int64(p.SDBR),
		initialMaxStreamDataUni:        int64(p.SDU),
		initialMaxStreamsBidi:          int64(p.SBidi),
		initialMaxStreamsUni:           int64(p.SUni),
		ackDelayExponent:               int8(p.AckExp),
		maxAckDelay:                    time.Duration(p.MaxAckMS) * time.Millisecond,
		disableActiveMigration:         p.NoMig,
		activeConnIDLimit:              int64(p.ActLimit),
		initialSrcConnID:               c28NonNil(p.HasISCID, p.ISCID),
		retrySrcConnID:                 c28NonNil(p.HasRSCID, p.RSCID),
	}
	if p.Pref != nil {
		if len(p.Pref.V4) != 4 || len(p.Pref.V6) != 16 || len(p.Pref.CID) < 1 || len(p.Pref.CID) > 20 || len(p.Pref.Tok) != 16 {
			return transportParameters{}, errors.New("harness: bad preferred address")
		}
		tp.preferredAddrV4 = netip.AddrPortFrom(netip.AddrFrom4([4]byte(p.Pref.V4)), p.Pref.P4)
		tp.preferredAddrV6 = netip.AddrPortFrom(netip.AddrFrom16([16]byte(p.Pref.V6)), p.Pref.P6)
		tp.preferredAddrConnID = p.Pref.CID
		tp.preferredAddrResetToken = p.Pref.Tok
	}
	return tp, nil
}

func c28BytesSame(a, b []byte) bool {
	return (a == nil) == (b == nil) && bytes.Equal(a, b)
}

// c28ParamsDiff names the first field in which two parameter sets differ ("" if none).
func c28ParamsDiff(a, b transportParameters) string {
	switch {
	case !c28BytesSame(a.originalDstConnID, b.originalDstConnID):
		return "original_destination_connection_id"
	case a.maxIdleTimeout != b.maxIdleTimeout:
		return "max_idle_timeout"
	case !c28BytesSame(a.statelessResetToken, b.statelessResetToken):
		return "stateless_reset_token"
	case a.maxUDPPayloadSize != b.maxUDPPayloadSize:
		return "max_udp_payload_size"
	case a.initialMaxData != b.initialMaxData:
		return "initial_max_data"
	case a.initialMaxStreamDataBidiLocal != b.initialMaxStreamDataBidiLocal:
		return "initial_max_stream_data_bidi_local"
	case a.initialMaxStreamDataBidiRemote != b.initialMaxStreamDataBidiRemote:
		return "initial_max_stream_data_bidi_remote"
	case a.initialMaxStreamDataUni != b.initialMaxStreamDataUni:
		return "initial_max_stream_data_uni"
	case a.initialMaxStreamsBidi != b.initialMaxStreamsBidi:
		return "initial_max_streams_bidi"
	case a.initialMaxStreamsUni != b.initialMaxStreamsUni:
		return "initial_max_streams_uni"
	case a.ackDelayExponent != b.ackDelayExponent:
		return "ack_delay_exponent"
	case a.maxAckDelay != b.maxAckDelay:
		return "max_ack_delay"
	case a.disableActiveMigration != b.disableActiveMigration:
		return "disable_active_migration"
	case a.preferredAddrV4 != b.preferredAddrV4:
		return "preferred_address v4"
	case a.preferredAddrV6 != b.preferredAddrV6:
		return "preferred_address v6"
	case !c28BytesSame(a.preferredAddrConnID, b.preferredAddrConnID):
		return "preferred_address connection id"
	case !c28BytesSame(a.preferredAddrResetToken, b.preferredAddrResetToken):
		return "preferred_address reset token"
	case a.activeConnIDLimit != b.activeConnIDLimit:
		return "active_connection_id_limit"
	case !c28BytesSame(a.initialSrcConnID, b.initialSrcConnID):
		return "initial_source_connection_id"
	case !c28BytesSame(a.retrySrcConnID, b.retrySrcConnID):
		return "retry_source_connection_id"
	}
	return ""
}

// c28InRange checks the ranges the statement lists on a successfully parsed set.
func c28InRange(p transportParameters) error {
	switch {
	case p.maxUDPPayloadSize < 1200:
		return fmt.Errorf("accepted max_udp_payload_size %d < 1200", p.maxUDPPayloadSize)
	case p.ackDelayExponent > 20 || p.ackDelayExponent < 0:
		return fmt.Errorf("accepted ack_delay_exponent %d > 20", p.ackDelayExponent)
	case p.maxAckDelay >= (1<<14)*time.Millisecond || p.maxAckDelay < 0:
		return fmt.Errorf("accepted max_ack_delay %v >= 2^14 ms", p.maxAckDelay)
	case p.initialMaxStreamsBidi > 1<<60 || p.initialMaxStreamsBidi < 0:
		return fmt.Errorf("accepted initial_max_streams_bidi %d > 2^60", p.initialMaxStreamsBidi)
	case p.initialMaxStreamsUni > 1<<60 || p.initialMaxStreamsUni < 0:
		return fmt.Errorf("accepted initial_max_streams_uni %d > 2^60", p.initialMaxStreamsUni)
	}
	return nil
}

// c28OutOfRange: is (id, v) one of the out-of-range values the statement lists?
func c28OutOfRange(id, v uint64) bool {
	switch id {
	case paramMaxUDPPayloadSize:
		return v < 1200
	case paramAckDelayExponent:
		return v > 20
	case paramMaxAckDelay:
		return v >= 1<<14
	case paramInitialMaxStreamsBidi, paramInitialMaxStreamsUni:
		return v > 1<<60
	}
	return false
}

func c28AppendVarint8(b []byte, v uint64) []byte {
	return append(b, 0xc0|byte(v>>56), byte(v>>48), byte(v>>40), byte(v>>32), byte(v>>24), byte(v>>16), byte(v>>8), byte(v))
}

func c28ParamsProp(c c28ParamsCase, r *vp.Rec) error {
	tp, err := c.P.build()
	if err != nil {
		return err
	}
	enc := marshalTransportParameters(tp)
	if !c.Bad {
		got, err := unmarshalTransportParams(append([]byte(nil), enc...))
		if err != nil {
			return fmt.Errorf("valid parameters %+v marshal to %x, which unmarshal rejects: %v", c.P, enc, err)
		}
		if d := c28ParamsDiff(tp, got); d != "" {
			return fmt.Errorf("%s changed in marshal/unmarshal: sent %+v, got %+v (wire %x)", d, tp, got, enc)
		}
		r.Class("params:roundtrip")
		if c.P.Pref != nil {
			r.Class("params:with-preferred-address")
		}
		if c.P.MaxUDP == 1200 || c.P.AckExp == 20 || c.P.MaxAckMS == 1<<14-1 || c.P.SBidi == 1<<60 || c.P.SUni == 1<<60 {
			r.Class("params:at-a-listed-bound")
			r.NonTrivial()
		}
		return nil
	}
	if !c28OutOfRange(c.BadID, c.BadVal) || c.BadVal > c28MaxVarint {
		return fmt.Errorf("harness: (%d,%d) is not an out-of-range parameter", c.BadID, c.BadVal)
	}
	var val []byte
	if c.Wide {
		val = c28AppendVarint8(nil, c.BadVal)
	} else {
		val = quicwire.AppendVarint(nil, c.BadVal)
	}
	bad := quicwire.AppendVarint(nil, c.BadID)
	bad = quicwire.AppendVarint(bad, uint64(len(val)))
	bad = append(bad, val...)
	var in []byte
	if c.Front {
		in = append(bad, enc...)
	} else {
		in = append(append([]byte(nil), enc...), bad...)
	}
	if got, err := unmarshalTransportParams(in); err == nil {
		return fmt.Errorf("parameter %#x = %d is out of range but %x was accepted as %+v", c.BadID, c.BadVal, in, got)
	}
	r.Classf("params:out-of-range-rejected:%#x", c.BadID)
	r.NonTrivial()
	return nil
}

func c28ParamsGen(t *rapid.T) c28ParamsCase {
	vi := c28Varint(c28MaxVarint)
	opt := func(label string, g *rapid.Generator[uint64]) uint64 {
		if int(rapid.Byte().Draw(t, label+"?"))%3 == 0 {
			return 0
		}
		return g.Draw(t, label)
	}
	cid := func(label string) (bool, []byte) {
		if int(rapid.Byte().Draw(t, label+"?"))%2 == 0 {
			return false, nil
		}
		return true, rapid.SliceOfN(rapid.Byte(), 0, 20).Draw(t, label)
	}
	var p c28Params
	p.HasODCID, p.ODCID = cid("odcid")
	p.IdleMS = opt("idle", rapid.OneOf(rapid.Uint64Range(0, 600000), rapid.Uint64Range(1<<32-2, 1<<32)))
	if rapid.Bool().Draw(t, "resettok") {
		p.ResetTok = rapid.SliceOfN(rapid.Byte(), 16, 16).Draw(t, "tok")
	}
	switch int(rapid.Byte().Draw(t, "udpclass")) % 4 {
	case 0:
		p.MaxUDP = 65527
	case 1:
		p.MaxUDP = rapid.Uint64Range(1200, 1202).Draw(t, "udp")
	case 2:
		p.MaxUDP = rapid.Uint64Range(1200, 70000).Draw(t, "udp")
	default:
		p.MaxUDP = max(1200, vi.Draw(t, "udp"))
	}
	p.MaxData = opt("maxdata", vi)
	p.SDBL = opt("sdbl", vi)
	p.SDBR = opt("sdbr", vi)
	p.SDU = opt("sdu", vi)
	p.SBidi = opt("sbidi", c28Varint(c28MaxStreams))
	p.SUni = opt("suni", c28Varint(c28MaxStreams))
	p.AckExp = vp.BiasedInt(0, 20, 3, 20).Draw(t, "ackexp")
	p.MaxAckMS = uint64(vp.BiasedInt(0, 1<<14-1, 25, 1<<14-1).Draw(t, "maxack"))
	p.NoMig = rapid.Bool().Draw(t, "nomig")
	if int(rapid.Byte().Draw(t, "pref?"))%3 == 0 {
		p.Pref = &c28Pref{
			V4:  rapid.SliceOfN(rapid.Byte(), 4, 4).Draw(t, "v4"),
			P4:  rapid.Uint16().Draw(t, "p4"),
			V6:  rapid.SliceOfN(rapid.Byte(), 16, 16).Draw(t, "v6"),
			P6:  rapid.Uint16().Draw(t, "p6"),
			CID: rapid.SliceOfN(rapid.Byte(), 1, 20).Draw(t, "pcid"),
			Tok: rapid.SliceOfN(rapid.Byte(), 16, 16).Draw(t, "ptok"),
		}
	}
	switch int(rapid.Byte().Draw(t, "actclass")) % 3 {
	case 0:
		p.ActLimit = 2
	case 1:
		p.ActLimit = rapid.Uint64Range(2, 8).Draw(t, "act")
	default:
		p.ActLimit = max(2, vi.Draw(t, "act"))
	}
	p.HasISCID, p.ISCID = cid("iscid")
	p.HasRSCID, p.RSCID = cid("rscid")
	c := c28ParamsCase{P: p}
	if int(rapid.Byte().Draw(t, "bad?"))%3 == 0 {
		c.Bad = true
		c.Front = rapid.Bool().Draw(t, "front")
		c.Wide = int(rapid.Byte().Draw(t, "wide"))%4 == 0
		switch int(rapid.Byte().Draw(t, "badkind")) % 5 {
		case 0:
			c.BadID = paramMaxUDPPayloadSize
			c.BadVal = uint64(vp.BiasedInt(0, 1199, 0, 1199).Draw(t, "badv"))
		case 1:
			c.BadID = paramAckDelayExponent
			c.BadVal = 21 + c28Varint(c28MaxVarint-21).Draw(t, "badv")
			if rapid.Bool().Draw(t, "near") {
				c.BadVal = uint64(rapid.SampledFrom([]int{21, 22, 127, 128, 255, 256, 276}).Draw(t, "badv2"))
			}
		case 2:
			c.BadID = paramMaxAckDelay
			c.BadVal = 1<<14 + c28Varint(c28MaxVarint-1<<14).Draw(t, "badv")
			if rapid.Bool().Draw(t, "near") {
				c.BadVal = 1<<14 + rapid.Uint64Range(0, 2).Draw(t, "badv2")
			}
		case 3:
			c.BadID = paramInitialMaxStreamsBidi
			c.BadVal = 1<<60 + 1 + rapid.Uint64Range(0, c28MaxVarint-1<<60-1).Draw(t, "badv")
		default:
			c.BadID = paramInitialMaxStreamsUni
			c.BadVal = 1<<60 + 1 + rapid.Uint64Range(0, c28MaxVarint-1<<60-1).Draw(t, "badv")
		}
	}
	return c
}

func TestVP_C28_params(t *testing.T) {
	vp.Run(t, vp.Spec[c28ParamsCase]{ID: "C28", Sub: "params", Gen: c28ParamsGen, Prop: c28ParamsProp})
}

// ---- decoding arbitrary and mutated bytes --------------------------------------------------

type c28DecCase struct {
	Kind    int    `json:"kind"` // 0 frames, 1 long-header packet, 2 1-RTT packet, 3 transport parameters
	B       []byte `json:"b"`
	PnumMax int64  `json:"pnum_max"`
	CIDLen  int    `json:"cid_len"`
	Origin  string `json:"origin,omitempty"` // how the bytes were made (information only)
}

var c28FuzzKeys = sync.OnceValue(func() fixedKeys {
	return initialKeys([]byte{0, 0, 0, 0, 0, 0, 0, 0}, clientSide).r
})

// c28Reencode writes a parsed frame again and parses the result: the statement's
// round trip applied to values the parser itself produced.
func c28Reencode(f debugFrame, wireLen int) error {
	if p, ok := f.(debugFramePadding); ok && p.size == 0 {
		return nil
	}
	var w packetWriter
	w.reset(wireLen + 128)
	w.start1RTTPacket(0, -1, nil)
	if !f.write(&w) {
		return fmt.Errorf("parsed frame %v (from %d bytes) is refused by the writer with %d bytes available", f, wireLen, w.avail())
	}
	enc := w.payload()
	g, n := parseDebugFrame(enc)
	if n != len(enc) {
		return fmt.Errorf("parsed frame %v re-encodes to %x, of which the parser consumes %d", f, enc, n)
	}
	if a, ok := f.(debugFrameAck); ok && len(a.ranges) > 64 {
		// the writer keeps at most 64 ranges (the highest)
		ga, ok := g.(debugFrameAck)
		if !ok || len(ga.ranges) < 1 || len(ga.ranges) > len(a.ranges) {
			return fmt.Errorf("parsed frame %v re-encodes to %x = %v", f, enc, g)
		}
		a.ranges = a.ranges[len(a.ranges)-len(ga.ranges):]
		f = a
	}
	if c28Canon(f) != c28Canon(g) {
		return fmt.Errorf("parsed frame %v re-encodes to %x, which parses as %v", c28Canon(f), enc, c28Canon(g))
	}
	return nil
}

func c28DecProp(c c28DecCase, r *vp.Rec) error {
	if c.CIDLen < 0 || c.CIDLen > 20 || c.PnumMax < 0 || c.PnumMax > int64(maxPacketNumber) {
		return fmt.Errorf("harness: bad case")
	}
	in := func() []byte { return append([]byte(nil), c.B...) }
	switch c.Kind {
	case 0:
		b := in()
		parsed := 0
		for len(b) > 0 && parsed < 256 {
			f, n := parseDebugFrame(b)
			if n < 0 {
				r.Class("decode:frame-rejected")
				break
			}
			if n == 0 || n > len(b) {
				return fmt.Errorf("parseDebugFrame(%x) consumed %d of %d bytes (%v)", b, n, len(b), f)
			}
			switch f := f.(type) {
			case debugFrameMaxStreams:
				if f.max > 1<<60 || f.max < 0 {
					return fmt.Errorf("MAX_STREAMS with %d > 2^60 accepted (%x)", f.max, b[:n])
				}
			case debugFrameStreamsBlocked:
				if f.max > 1<<60 || f.max < 0 {
					return fmt.Errorf("STREAMS_BLOCKED with Maximum Streams %d > 2^60 accepted (%x)", f.max, b[:n])
				}
			}
			if err := c28Reencode(f, n); err != nil {
				return fmt.Errorf("%v [input frame %x]", err, b[:n])
			}
			parsed++
			b = b[n:]
		}
		if parsed > 0 {
			r.Class("decode:frame-parsed")
			r.NonTrivial()
		}
	case 1:
		for _, k := range []fixedKeys{c28FuzzKeys(), {}} {
			b := in()
			p, n := parseLongHeaderPacket(b, k, packetNumber(c.PnumMax))
			if n != -1 && (n < 1 || n > len(b)) {
				return fmt.Errorf("parseLongHeaderPacket consumed %d of %d bytes", n, len(b))
			}
			if n >= 0 {
				if len(p.dstConnID) > 20 || len(p.srcConnID) > 20 {
					return fmt.Errorf("accepted a connection ID longer than 20 bytes (%d, %d)", len(p.dstConnID), len(p.srcConnID))
				}
				r.Class("decode:long-header-accepted")
				r.NonTrivial()
			} else {
				r.Class("decode:long-header-rejected")
			}
		}
		b := in()
		if n := skipLongHeaderPacket(b); n != -1 && (n < 1 || n > len(b)) {
			return fmt.Errorf("skipLongHeaderPacket = %d for %d bytes", n, len(b))
		}
	case 2:
		k := &updatingKeyPair{}
		k.r.init(tls.TLS_AES_128_GCM_SHA256, []byte("c28"))
		k.w = k.r
		k.updateAfter = maxPacketNumber
		p, err := parse1RTTPacket(in(), k, c.CIDLen, packetNumber(c.PnumMax))
		if err == nil {
			if len(p.payload) > len(c.B) {
				return fmt.Errorf("1-RTT payload of %d bytes from %d input bytes", len(p.payload), len(c.B))
			}
			r.Class("decode:1rtt-accepted")
			r.NonTrivial()
		} else {
			r.Class("decode:1rtt-rejected")
		}
	case 3:
		p1, err := unmarshalTransportParams(in())
		if err != nil {
			r.Class("decode:params-rejected")
			return nil
		}
		if err := c28InRange(p1); err != nil {
			return fmt.Errorf("%v (input %x)", err, c.B)
		}
		out := marshalTransportParameters(p1)
		p2, err := unmarshalTransportParams(out)
		if err != nil {
			return fmt.Errorf("parameters parsed from %x re-marshal to %x, which is rejected: %v", c.B, out, err)
		}
		if d := c28ParamsDiff(p1, p2); d != "" {
			return fmt.Errorf("%s changed when parameters parsed from %x were re-marshalled (%x): %+v vs %+v", d, c.B, out, p1, p2)
		}
		r.Class("decode:params-accepted")
		r.NonTrivial()
	default:
		return fmt.Errorf("harness: bad kind")
	}
	return nil
}

// c28Mutate applies drawn byte-level mutations.
func c28Mutate(t *rapid.T, b []byte) []byte {
	b = append([]byte(nil), b...)
	n := rapid.IntRange(1, 4).Draw(t, "nmut")
	interesting := []byte{0x00, 0x01, 0x3f, 0x40, 0x7f, 0x80, 0xbf, 0xc0, 0xff, 0x14, 0x15}
	for i := 0; i < n; i++ {
		pos := 0
		if len(b) > 0 {
			pos = rapid.IntRange(0, len(b)-1).Draw(t, "pos")
		}
		switch int(rapid.Byte().Draw(t, "mut")) % 6 {
		case 0:
			if len(b) > 0 {
				b[pos] ^= 1 << (int(rapid.Byte().Draw(t, "bit")) % 8)
			}
		case 1:
			if len(b) > 0 {
				b[pos] = rapid.SampledFrom(interesting).Draw(t, "val")
			}
		case 2:
			b = b[:pos] // truncate
		case 3:
			ins := rapid.SliceOfN(rapid.SampledFrom(interesting), 1, 9).Draw(t, "ins")
			b = append(b[:pos], append(ins, b[pos:]...)...)
		case 4:
			if len(b) > 0 { // overwrite with an 8-byte varint of a boundary value
				v := rapid.SampledFrom([]uint64{1<<60 + 1, 1 << 60, c28MaxVarint, 1 << 14, 21, 1199}).Draw(t, "bigv")
				enc := c28AppendVarint8(nil, v)
				b = append(b[:pos], append(enc, b[min(len(b), pos+rapid.IntRange(0, 8).Draw(t, "del")):]...)...)
			}
		default:
			if len(b) > 0 {
				b = append(b, b[pos:]...) // duplicate the tail
			}
		}
	}
	return b
}

func c28DecGen(t *rapid.T) c28DecCase {
	c := c28DecCase{
		Kind:    int(rapid.Byte().Draw(t, "kind")) % 4,
		PnumMax: int64(c28Varint(uint64(maxPacketNumber)).Draw(t, "pnummax")),
		CIDLen:  rapid.SampledFrom([]int{8, 0, 20, 3}).Draw(t, "cidlen"),
	}
	mode := int(rapid.Byte().Draw(t, "mode")) % 4
	if mode == 0 {
		c.Origin = "arbitrary"
		c.B = rapid.SliceOfN(rapid.Byte(), 0, 80).Draw(t, "raw")
		if c.Kind == 0 && len(c.B) > 0 && rapid.Bool().Draw(t, "validtype") {
			c.B[0] = byte(rapid.IntRange(0, 0x1e).Draw(t, "ftype"))
		}
		if c.Kind == 1 && len(c.B) > 0 {
			c.B[0] |= 0xc0
		}
		return c
	}
	// a valid encoding, then (mode > 1) mutated
	var valid []byte
	switch c.Kind {
	case 0:
		frames := rapid.SliceOfN(c28FrameGen(), 1, 3).Draw(t, "frames")
		var w packetWriter
		w.reset(4000)
		w.start1RTTPacket(0, -1, nil)
		for _, f := range frames {
			if df, err := c28Make(f); err == nil && c28Valid(f) {
				df.write(&w)
			}
		}
		valid = append([]byte(nil), w.payload()...)
	case 1, 2:
		pc := c28PktGen(t)
		pc.Lim = 1500
		pc.Pre = false
		if c.Kind == 1 {
			pc.Kind %= 3
			pc.Version = max(pc.Version, 1)
		} else {
			pc.Kind = 3
		}
		if len(pc.Payload) == 0 {
			pc.Payload = []byte{1}
		}
		var w packetWriter
		w.reset(pc.Lim)
		pn, acked := packetNumber(pc.PNum), packetNumber(pc.PNum-pc.D)
		if c.Kind == 1 {
			lp := longPacket{ptype: [...]packetType{packetTypeInitial, packetType0RTT, packetTypeHandshake}[pc.Kind],
				version: pc.Version, num: pn, dstConnID: pc.DCID, srcConnID: pc.SCID, extra: pc.Token}
			w.startProtectedLongHeaderPacket(acked, lp)
			w.b = append(w.b, pc.Payload[:min(len(pc.Payload), max(w.avail(), 0))]...)
			w.finishProtectedLongHeaderPacket(acked, c28FuzzKeys(), lp)
		} else {
			k := &updatingKeyPair{}
			k.r.init(tls.TLS_AES_128_GCM_SHA256, []byte("c28"))
			k.w = k.r
			k.updateAfter = maxPacketNumber
			w.start1RTTPacket(pn, acked, pc.DCID)
			w.b = append(w.b, pc.Payload[:min(len(pc.Payload), max(w.avail(), 0))]...)
			w.finish1RTTPacket(pn, acked, pc.DCID, k)
			c.CIDLen = len(pc.DCID)
		}
		c.PnumMax = max(int64(acked), 0)
		valid = append([]byte(nil), w.datagram()...)
	default:
		pc := c28ParamsGen(t)
		if tp, err := pc.P.build(); err == nil {
			valid = marshalTransportParameters(tp)
		}
	}
	if mode == 1 {
		c.Origin = "valid"
		c.B = valid
	} else {
		c.Origin = "mutated"
		c.B = c28Mutate(t, valid)
	}
	return c
}

func TestVP_C28_decode(t *testing.T) {
	vp.Run(t, vp.Spec[c28DecCase]{ID: "C28", Sub: "decode", Gen: c28DecGen, Prop: c28DecProp})
}

// ---- native fuzz targets -------------------------------------------------------------------

func c28SeedFrames() [][]byte {
	var out [][]byte
	for _, f := range []c28Frame{
		{T: "ping"}, {T: "hsdone"}, {T: "padding", A: 3},
		{T: "ack", A: 10, Rng: [][2]int64{{0, 16}, {17, 32}, {48, 64}}},
		{T: "ack", A: 1, Rng: [][2]int64{{0, 1}, {2, 3}, {4, 5}, {6, 7}, {8, 9}}, ECN: [3]uint64{1, 2, 3}},
		{T: "reset", A: 1, B: 2, C: 3}, {T: "stop", A: 1, B: 2},
		{T: "crypto", A: 1 << 20, Data: []byte("crypto")}, {T: "token", Data: []byte("tok")},
		{T: "stream", A: 4, B: 70000, Fin: true, Data: []byte("stream data")}, {T: "stream", A: 4, Data: nil},
		{T: "maxdata", A: 1 << 30}, {T: "maxsdata", A: 1, B: 2}, {T: "maxstreams", A: 1 << 60}, {T: "maxstreams", Uni: true, A: 5},
		{T: "datablocked", A: 9}, {T: "sdatablocked", A: 9, B: 10}, {T: "streamsblocked", A: 1 << 60}, {T: "streamsblocked", Uni: true, A: 1},
		{T: "newcid", A: 3, B: 1, Data: []byte{1, 2, 3, 4}, Tok: make([]byte, 16)}, {T: "retirecid", A: 1},
		{T: "pathchal", Tok: []byte("12345678")}, {T: "pathresp", Tok: []byte("abcdefgh")},
		{T: "closet", A: 0x0a, B: 0x06, Data: []byte("why")}, {T: "closea", A: 77, Data: []byte("bye")},
	} {
		df, err := c28Make(f)
		if err != nil {
			continue
		}
		var w packetWriter
		w.reset(1200)
		w.start1RTTPacket(0, -1, nil)
		df.write(&w)
		out = append(out, append([]byte(nil), w.payload()...))
	}
	out = append(out,
		[]byte{0x08, 0x01},            // STREAM without LEN, OFF
		[]byte{0x0c, 0x01, 0x05, 'a'}, // STREAM with OFF
		[]byte{0x0e, 0x01, 0xff, 0xff, 0xff, 0xff, 0xff, 0xff, 0xff, 0xff, 0x01, 'a'}, // offset overflow
		[]byte{0x12, 0xd0, 0, 0, 0, 0, 0, 0, 1},                                       // MAX_STREAMS 2^60+1
		[]byte{0x16, 0xd0, 0, 0, 0, 0, 0, 0, 1},                                       // STREAMS_BLOCKED 2^60+1
		[]byte{0x02, 0x05, 0x00, 0x01, 0x00, 0x09},                                    // ACK whose second range is negative
		[]byte{0x18, 0x01, 0x00, 0x15},                                                // NEW_CONNECTION_ID length 21
		[]byte{0x07, 0x00},                                                            // empty NEW_TOKEN
		[]byte{0x1f}, []byte{0x40, 0x01}, []byte{0xff},
	)
	return out
}

func FuzzVP_C28_frames(f *testing.F) {
	for _, s := range c28SeedFrames() {
		f.Add(uint8(0), s)
	}
	// RFC 9001 A.3 server Initial (the repository's own parse vector) and hostile headers
	f.Add(uint8(1), []byte{0xc0, 0, 0, 0, 1, 0, 0, 0, 0, 0})
	f.Add(uint8(1), []byte{0xc0, 0, 0, 0, 1, 0x15})
	f.Add(uint8(1), []byte{0xf0, 0, 0, 0, 1, 0, 0, 1, 2, 3})
	f.Add(uint8(1), []byte{0xc0, 0, 0, 0, 0, 0, 0, 0, 0, 0})
	f.Add(uint8(2), bytes.Repeat([]byte{0x40}, 30))
	f.Add(uint8(2), []byte{0x40})
	f.Fuzz(func(t *testing.T, kind uint8, in []byte) {
		if len(in) > 4096 {
			t.Skip()
		}
		c := c28DecCase{Kind: int(kind) % 3, B: in, CIDLen: 8}
		if len(in) > 0 {
			c.PnumMax = int64(in[len(in)-1]) << (in[0] % 50)
		}
		if err := c28DecProp(c, &vp.Rec{}); err != nil {
			vp.FuzzFail(t, "C28", "decode", c, err)
		}
	})
}

func FuzzVP_C28_params(f *testing.F) {
	f.Add([]byte{})
	f.Add([]byte{0x03, 0x02, 0x44, 0xb0})
	f.Add([]byte{0x03, 0x02, 0x44, 0xaf})
	f.Add([]byte{0x0a, 0x01, 0x15})
	f.Add([]byte{0x0b, 0x04, 0x80, 0x00, 0x40, 0x00})
	f.Add([]byte{0x08, 0x08, 0xd0, 0, 0, 0, 0, 0, 0, 1})
	f.Add([]byte{0x09, 0x08, 0xd0, 0, 0, 0, 0, 0, 0, 0})
	f.Add([]byte{0x20, 1, 0, 0x04, 1, 10, 0x21, 1, 0})
	f.Add([]byte{0x0c, 0x00, 0x0e, 0x01, 0x02})
	f.Add(marshalTransportParameters(transportParameters{
		originalDstConnID: []byte("odcid"), maxIdleTimeout: 30 * time.Second, statelessResetToken: []byte("0123456789abcdef"),
		maxUDPPayloadSize: 1472, initialMaxData: 1 << 20, initialMaxStreamsBidi: 100, ackDelayExponent: 3,
		maxAckDelay: 25 * time.Millisecond, activeConnIDLimit: 4, initialSrcConnID: []byte{},
		preferredAddrV4:     netip.MustParseAddrPort("127.0.0.1:80"),
		preferredAddrV6:     netip.MustParseAddrPort("[::1]:443"),
		preferredAddrConnID: []byte{1, 2, 3}, preferredAddrResetToken: make([]byte, 16),
	}))
	f.Fuzz(func(t *testing.T, in []byte) {
		if len(in) > 4096 {
			t.Skip()
		}
		c := c28DecCase{Kind: 3, B: in}
		if err := c28DecProp(c, &vp.Rec{}); err != nil {
			vp.FuzzFail(t, "C28", "decode", c, err)
		}
	})
}
