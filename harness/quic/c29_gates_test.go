package quic

// C29: QUIC gates and queues provide exclusion without lost wakeups.
//
// Three sub-checks, all compiled into the quic test binary (internal/gate is not used
// by package quic itself, but it is importable from it, so the same schedule check is
// run against quic.gate and gate.Gate):
//
//	TestVP_C29_gate    harness-owned schedules over one gate (quic or internal/gate)
//	TestVP_C29_queue   harness-owned schedules over one quic queue
//	TestVP_C29_stress  real parallelism, schedule-independent invariants only
//
// Harness-owned schedule: 2-5 worker goroutines live in a testing/synctest bubble.
// The case is a list of steps; a step is a small batch (usually one) of actions
// "worker W starts operation Op" or "cancel the context of W's wait". The subsequence
// of actions of one worker is that worker's script. After every step synctest.Wait
// establishes quiescence: every started operation has either completed (its result
// is collected) or is durably blocked. A reference model (holder, condition bit,
// blocked callers / FIFO contents, closed bit) says which outcomes are allowed.
// Actions inside one batch run with real concurrency, so the model is written as
// constraints on the quiescent state and is permissive exactly where two actions of
// the same batch race (a cancelled waiter may still win the gate, ...).

import (
	"context"
	"errors"
	"fmt"
	"runtime"
	"sort"
	"sync"
	"sync/atomic"
	"testing"
	"testing/synctest"
	"unsafe"

	igate "golang.org/x/net/internal/gate"
	"pgregory.net/rapid"
	"verif/vp"
)

// ---------------------------------------------------------------------------
// shared worker machinery

type c29Panic struct{ msg string }

type c29Result struct {
	w   int
	out any
}

// c29Pool is a set of worker goroutines that execute closures handed to them by the
// controlling goroutine. Must be created and used inside a bubble.
type c29Pool struct {
	cmd  []chan func() any
	res  chan c29Result
	busy []bool
}

func c29NewPool(n int) *c29Pool {
	p := &c29Pool{res: make(chan c29Result, n), busy: make([]bool, n)}
	for i := 0; i < n; i++ {
		ch := make(chan func() any)
		p.cmd = append(p.cmd, ch)
		go func(i int, ch chan func() any) {
			for f := range ch {
				p.res <- c29Result{i, c29Call(f)}
			}
		}(i, ch)
	}
	return p
}

func c29Call(f func() any) (out any) {
	defer func() {
		if e := recover(); e != nil {
			out = c29Panic{fmt.Sprint(e)}
		}
	}()
	return f()
}

// start hands f to idle worker w.
func (p *c29Pool) start(w int, f func() any) {
	p.busy[w] = true
	p.cmd[w] <- f
}

// settle waits for quiescence and returns the results of the operations that
// completed, ordered by worker index.
func (p *c29Pool) settle() []c29Result {
	synctest.Wait()
	var out []c29Result
	for {
		select {
		case r := <-p.res:
			p.busy[r.w] = false
			out = append(out, r)
			continue
		default:
		}
		break
	}
	sort.Slice(out, func(i, j int) bool { return out[i].w < out[j].w })
	return out
}

// stop lets every idle worker exit.
func (p *c29Pool) stop() {
	for _, ch := range p.cmd {
		close(ch)
	}
	synctest.Wait()
}

// c29InBubble runs f in a bubble. f's own verdict wins over the bubble's deadlock
// panic (which necessarily follows a verdict that leaves goroutines blocked).
func c29InBubble(f func() error) error {
	var verdict error
	berr := vp.Bubble(func(t *testing.T) error {
		verdict = f()
		return verdict
	})
	if verdict != nil {
		return verdict
	}
	return berr
}

// c29RawGate gives access to the channels of either gate implementation (the two
// structs have the same layout). It is used only by c29Flood.
func c29RawGate(g c29Gate) *gate {
	switch x := g.(type) {
	case *c29QuicGate:
		return &x.g
	case *c29IntGate:
		return (*gate)(unsafe.Pointer(&x.g))
	}
	return nil
}

// c29Flood is the clean-up after a verdict: it feeds tokens into (and takes surplus
// tokens out of) a gate that may be broken until idle() reports that nobody is stuck
// any more. The package's TestMain waits for leaked goroutines until the test binary
// times out, so a failing case should not leave blocked goroutines behind. Best
// effort; it never influences a verdict.
func c29Flood(g *gate, rounds int, idle func() bool) bool {
	for i := 0; i < rounds; i++ {
		synctest.Wait()
		if idle() {
			return true
		}
		switch i % 3 {
		case 0:
			select {
			case g.set <- struct{}{}:
			default:
			}
		case 1:
			select {
			case g.unset <- struct{}{}:
			default:
			}
		case 2:
			select {
			case <-g.set:
			default:
			}
			select {
			case <-g.unset:
			default:
			}
		}
	}
	synctest.Wait()
	return idle()
}

func (p *c29Pool) idle() bool {
	for {
		select {
		case r := <-p.res:
			p.busy[r.w] = false
			continue
		default:
		}
		break
	}
	for _, b := range p.busy {
		if b {
			return false
		}
	}
	return true
}

// ---------------------------------------------------------------------------
// gate schedules

type c29Gate interface {
	lock() bool
	lockIfSet() bool
	waitAndLock(ctx context.Context) error
	unlock(set bool)
	unlockFunc(f func() bool)
}

type c29QuicGate struct{ g gate }

func (g *c29QuicGate) lock() bool                            { return g.g.lock() }
func (g *c29QuicGate) lockIfSet() bool                       { return g.g.lockIfSet() }
func (g *c29QuicGate) waitAndLock(ctx context.Context) error { return g.g.waitAndLock(ctx) }
func (g *c29QuicGate) unlock(set bool)                       { g.g.unlock(set) }
func (g *c29QuicGate) unlockFunc(f func() bool)              { g.g.unlockFunc(f) }

type c29IntGate struct{ g igate.Gate }

func (g *c29IntGate) lock() bool                            { return g.g.Lock() }
func (g *c29IntGate) lockIfSet() bool                       { return g.g.LockIfSet() }
func (g *c29IntGate) waitAndLock(ctx context.Context) error { return g.g.WaitAndLock(ctx) }
func (g *c29IntGate) unlock(set bool)                       { g.g.Unlock(set) }
func (g *c29IntGate) unlockFunc(f func() bool)              { g.g.Unlock(f()) }

// c29GAct is one action. Op is "lock", "try" (lockIfSet), "wait" (waitAndLock with a
// fresh cancellable context) or "cancel" (cancel the context of W's current wait, or
// pre-cancel its next one). If W holds the gate, any non-cancel action makes it
// unlock(Set) (through unlockFunc when Fn) - so only the holder ever unlocks.
type c29GAct struct {
	W   int    `json:"w"`
	Op  string `json:"op"`
	Set bool   `json:"set,omitempty"`
	Fn  bool   `json:"fn,omitempty"`
}

type c29GateCase struct {
	Impl    string      `json:"impl"` // "quic" | "internal"
	Init    string      `json:"init"` // "unset" | "set" | "locked" (quic only; worker 0 holds it)
	Workers int         `json:"workers"`
	Sched   [][]c29GAct `json:"sched"`
}

func c29BatchOf[A any](act *rapid.Generator[A]) *rapid.Generator[[]A] {
	return rapid.Custom(func(t *rapid.T) []A {
		n := rapid.SampledFrom([]int{1, 1, 1, 1, 1, 2, 2, 3}).Draw(t, "batch")
		return rapid.SliceOfN(act, n, n).Draw(t, "acts")
	})
}

func c29GateGen(t *rapid.T) c29GateCase {
	c := c29GateCase{
		Impl:    rapid.SampledFrom([]string{"quic", "quic", "internal"}).Draw(t, "impl"),
		Workers: rapid.IntRange(2, 5).Draw(t, "workers"),
	}
	if c.Impl == "quic" {
		c.Init = rapid.SampledFrom([]string{"unset", "set", "locked"}).Draw(t, "init")
	} else {
		c.Init = rapid.SampledFrom([]string{"unset", "set"}).Draw(t, "init")
	}
	act := rapid.Custom(func(t *rapid.T) c29GAct {
		return c29GAct{
			W:   rapid.IntRange(0, 4).Draw(t, "w"),
			Op:  rapid.SampledFrom([]string{"lock", "lock", "lock", "wait", "wait", "wait", "wait", "try", "try", "cancel", "cancel"}).Draw(t, "op"),
			Set: rapid.Bool().Draw(t, "set"),
			Fn:  rapid.IntRange(0, 3).Draw(t, "fn") == 0,
		}
	})
	c.Sched = rapid.SliceOfN(c29BatchOf(act), 1, 40).Draw(t, "sched")
	return c
}

const (
	c29Idle = iota
	c29InLock
	c29InTry
	c29InWait
	c29InUnlock
)

type c29GWorker struct {
	state      int
	cancel     context.CancelFunc
	cancelled  bool // the context of the wait in progress has been cancelled
	preCancel  bool // the next wait starts with a cancelled context
	wasBlocked bool // was blocked at the previous quiescent point
	unlockSet  bool
}

type c29WaitRes struct{ err error }

func c29GateProp(c c29GateCase, r *vp.Rec) error {
	if c.Workers < 1 || c.Workers > 16 || (c.Impl != "quic" && c.Impl != "internal") {
		r.Discard("malformed case")
		return nil
	}
	return c29InBubble(func() error { return c29GateRun(c, r) })
}

func c29GateRun(c c29GateCase, r *vp.Rec) error {
	n := c.Workers
	var g c29Gate
	holder, cond := -1, false
	switch {
	case c.Impl == "internal":
		cond = c.Init == "set"
		g = &c29IntGate{g: igate.New(cond)}
	case c.Init == "locked":
		g = &c29QuicGate{g: newLockedGate()}
		holder = 0
	case c.Init == "set":
		q := &c29QuicGate{g: newLockedGate()}
		q.g.unlock(true)
		g, cond = q, true
	default:
		g = &c29QuicGate{g: newGate()}
	}
	pool := c29NewPool(n)
	ws := make([]c29GWorker, n)
	maxBlocked, cancelWhileBlocked, handoffs := 0, false, 0

	// step runs one batch and checks the quiescent state against the model.
	step := func(si string, acts []c29GAct) error {
		holderAtStart, condAtStart := holder, cond
		unlocked, unlockSet := false, false
		for _, a := range acts {
			w := ((a.W % n) + n) % n
			wk := &ws[w]
			if a.Op == "cancel" {
				switch {
				case wk.state == c29InWait && !wk.cancelled:
					wk.cancel()
					wk.cancelled = true
					if wk.wasBlocked {
						cancelWhileBlocked = true
						r.Class("cancel-while-blocked")
					}
				case wk.state == c29Idle && holder != w:
					wk.preCancel = true
				}
				continue
			}
			if pool.busy[w] {
				r.Class("action-on-busy-worker(no-op)")
				continue
			}
			if holder == w {
				// Only the holder unlocks.
				set, fn := a.Set, a.Fn
				wk.state, wk.unlockSet = c29InUnlock, set
				unlocked, unlockSet = true, set
				holder = -2 // released during this batch; fixed up below
				pool.start(w, func() any {
					if fn {
						g.unlockFunc(func() bool { return set })
					} else {
						g.unlock(set)
					}
					return nil
				})
				continue
			}
			switch a.Op {
			case "lock":
				wk.state = c29InLock
				pool.start(w, func() any { return g.lock() })
			case "try":
				wk.state = c29InTry
				pool.start(w, func() any { return g.lockIfSet() })
			case "wait":
				ctx, cancel := context.WithCancel(context.Background())
				wk.state, wk.cancel, wk.cancelled = c29InWait, cancel, false
				if wk.preCancel {
					cancel()
					wk.cancelled, wk.preCancel = true, false
					r.Class("wait-with-cancelled-context")
				}
				pool.start(w, func() any { return c29WaitRes{g.waitAndLock(ctx)} })
			default:
				r.Class("unknown-op(no-op)")
			}
		}
		if len(acts) > 1 {
			r.Class("batch-step")
		}
		results := pool.settle()

		freeDuring := holderAtStart == -1 || unlocked
		condNow := condAtStart // the condition any acquisition of this step has seen
		if unlocked {
			condNow = unlockSet
		}
		acquirer := -1
		for _, res := range results {
			wk := &ws[res.w]
			st := wk.state
			wk.state = c29Idle
			if p, ok := res.out.(c29Panic); ok {
				return fmt.Errorf("%s: worker %d: gate operation panicked: %s", si, res.w, p.msg)
			}
			acquired := false
			switch st {
			case c29InUnlock:
			case c29InLock:
				acquired = true
				if res.out.(bool) != condNow {
					r.Class("stat:lock-result-differs-from-last-unlock")
				}
			case c29InTry:
				acquired = res.out.(bool)
				if len(acts) == 1 && acquired != (holderAtStart == -1 && condAtStart) {
					r.Class("stat:lockIfSet-differs-from-doc")
				}
			case c29InWait:
				err := res.out.(c29WaitRes).err
				wk.cancel() // release the context's resources; the wait is over
				if err == nil {
					acquired = true
					if !condNow {
						return fmt.Errorf("%s: worker %d: waitAndLock returned nil although the condition is not set (spurious acquire)", si, res.w)
					}
				} else {
					if !wk.cancelled {
						return fmt.Errorf("%s: worker %d: waitAndLock returned error %q although its context is not done", si, res.w, err)
					}
					if !errors.Is(err, context.Canceled) {
						r.Class("stat:wait-error-not-ctx-err")
					}
					r.Class("wait-returned-ctx-error")
				}
			}
			if acquired {
				if !freeDuring {
					return fmt.Errorf("%s: worker %d acquired the gate while worker %d holds it (exclusion failure)", si, res.w, holderAtStart)
				}
				if acquirer >= 0 {
					return fmt.Errorf("%s: workers %d and %d both acquired the gate (exclusion failure)", si, acquirer, res.w)
				}
				acquirer = res.w
				if wk.wasBlocked {
					handoffs++
					r.Class("blocked-waiter-woken")
				}
			}
		}
		switch {
		case acquirer >= 0:
			holder = acquirer
		case unlocked:
			holder, cond = -1, unlockSet
		default:
			holder = holderAtStart
		}
		if unlocked && acquirer < 0 {
			cond = unlockSet
		}
		// quiescent-state constraints
		blocked := 0
		for w := range ws {
			wk := &ws[w]
			wk.wasBlocked = false
			if !pool.busy[w] {
				continue
			}
			switch wk.state {
			case c29InUnlock:
				return fmt.Errorf("%s: worker %d: unlock by the holder blocked (the gate already contained a token)", si, w)
			case c29InTry:
				return fmt.Errorf("%s: worker %d: lockIfSet blocked", si, w)
			case c29InLock:
				if holder == -1 {
					return fmt.Errorf("%s: worker %d is still blocked in lock although nobody holds the gate (lost wake-up)", si, w)
				}
			case c29InWait:
				if wk.cancelled {
					return fmt.Errorf("%s: worker %d is still blocked in waitAndLock although its context is done (lost wake-up)", si, w)
				}
				if holder == -1 && cond {
					return fmt.Errorf("%s: worker %d is still blocked in waitAndLock although the gate is unlocked with the condition set (lost wake-up)", si, w)
				}
				if holder == -1 {
					r.Class("waiter-parked-on-unset-free-gate")
				}
			}
			wk.wasBlocked = true
			blocked++
		}
		if blocked > maxBlocked {
			maxBlocked = blocked
		}
		return nil
	}

	fail := func(err error) error {
		// best effort: let every goroutine go away
		for w := range ws {
			if ws[w].cancel != nil {
				ws[w].cancel()
			}
		}
		if c29Flood(c29RawGate(g), 12*n+12, pool.idle) {
			pool.stop()
		}
		return err
	}
	for i, acts := range c.Sched {
		if err := step(fmt.Sprintf("step %d", i), acts); err != nil {
			return fail(err)
		}
	}
	// Release everything: the holder unlocks with the condition set, which must hand the
	// gate to one blocked caller after the other; waiters parked on a free gate with
	// the condition unset are released through their contexts.
	for i := 0; i < 4*n+4; i++ {
		var acts []c29GAct
		if holder >= 0 {
			acts = []c29GAct{{W: holder, Op: "lock", Set: true}}
		} else {
			for w := range ws {
				if pool.busy[w] {
					acts = append(acts, c29GAct{W: w, Op: "cancel"})
				}
			}
		}
		if len(acts) == 0 {
			break
		}
		if err := step(fmt.Sprintf("release %d", i), acts); err != nil {
			return fail(err)
		}
	}
	for w := range ws {
		if pool.busy[w] {
			return fail(fmt.Errorf("release: worker %d never returned", w))
		}
	}
	pool.stop()
	r.Classf("impl:%s", c.Impl)
	if maxBlocked >= 2 {
		r.Class("blocked>=2")
	}
	if handoffs > 0 {
		r.Class("handoff")
	}
	if maxBlocked >= 2 && cancelWhileBlocked {
		r.NonTrivial()
		r.Class("nt:gate")
	}
	return nil
}

func TestVP_C29_gate(t *testing.T) {
	vp.Run(t, vp.Spec[c29GateCase]{ID: "C29", Sub: "gate", Gen: c29GateGen, Prop: c29GateProp})
}

// ---------------------------------------------------------------------------
// queue schedules

// c29QAct: Op is "put" (the value is unique per action), "get" (fresh cancellable
// context), "close" (a distinct error per action) or "cancel".
type c29QAct struct {
	W  int    `json:"w"`
	Op string `json:"op"`
}

type c29QueueCase struct {
	Workers int         `json:"workers"`
	Sched   [][]c29QAct `json:"sched"`
}

func c29QueueGen(t *rapid.T) c29QueueCase {
	act := rapid.Custom(func(t *rapid.T) c29QAct {
		// rapid's small-int draws are strongly biased to 0; two bytes modulo 100 are
		// close to uniform.
		pct := (int(rapid.Byte().Draw(t, "p1"))<<8 | int(rapid.Byte().Draw(t, "p2"))) % 100
		var op string
		switch {
		case pct < 36:
			op = "put"
		case pct < 82:
			op = "get"
		case pct < 98:
			op = "cancel"
		default:
			op = "close"
		}
		return c29QAct{W: rapid.IntRange(0, 4).Draw(t, "w"), Op: op}
	})
	return c29QueueCase{
		Workers: rapid.IntRange(2, 5).Draw(t, "workers"),
		Sched:   rapid.SliceOfN(c29BatchOf(act), 1, 40).Draw(t, "sched"),
	}
}

type c29CloseErr struct{ id int }

func (e *c29CloseErr) Error() string { return fmt.Sprintf("c29 close error %d", e.id) }

type c29GetRes struct {
	v   int
	err error
}

const (
	c29InPut = iota + 10
	c29InGet
	c29InClose
)

func c29QueueProp(c c29QueueCase, r *vp.Rec) error {
	if c.Workers < 1 || c.Workers > 16 {
		r.Discard("malformed case")
		return nil
	}
	return c29InBubble(func() error { return c29QueueRun(c, r) })
}

func c29QueueRun(c c29QueueCase, r *vp.Rec) error {
	n := c.Workers
	q := newQueue[int]()
	pool := c29NewPool(n + 1) // worker n is the janitor used for the final close
	ws := make([]c29GWorker, n+1)
	var items []int // model FIFO
	delivered := map[int]bool{}
	closed := false
	closeIDs := map[int]bool{} // close operations started so far
	nextItem, nextClose := 1, 1
	maxBlocked, eventWhileBlocked := 0, false

	step := func(si string, acts []c29QAct, janitor bool) error {
		closedAtStart := closed
		mutator := -1
		putItem := 0
		anyBlocked := false
		for w := range ws {
			anyBlocked = anyBlocked || ws[w].wasBlocked
		}
		for _, a := range acts {
			w := ((a.W % n) + n) % n
			if janitor {
				w = n
			}
			wk := &ws[w]
			if a.Op == "cancel" {
				switch {
				case wk.state == c29InGet && pool.busy[w] && !wk.cancelled:
					wk.cancel()
					wk.cancelled = true
					if wk.wasBlocked {
						eventWhileBlocked = true
						r.Class("cancel-while-blocked")
					}
				case !pool.busy[w]:
					wk.preCancel = true
				}
				continue
			}
			if pool.busy[w] {
				r.Class("action-on-busy-worker(no-op)")
				continue
			}
			switch a.Op {
			case "put", "close":
				if mutator >= 0 {
					// one put/close per batch keeps the put order total
					r.Class("second-mutator-in-batch(no-op)")
					continue
				}
				mutator = w
				if a.Op == "put" {
					v := nextItem
					nextItem++
					putItem = v
					wk.state = c29InPut
					pool.start(w, func() any { return q.put(v) })
				} else {
					id := nextClose
					nextClose++
					closeIDs[id] = true
					closed = true
					wk.state = c29InClose
					if anyBlocked {
						eventWhileBlocked = true
						r.Class("close-while-blocked")
					}
					pool.start(w, func() any { q.close(&c29CloseErr{id}); return nil })
				}
			case "get":
				ctx, cancel := context.WithCancel(context.Background())
				wk.state, wk.cancel, wk.cancelled = c29InGet, cancel, false
				if wk.preCancel {
					cancel()
					wk.cancelled, wk.preCancel = true, false
					r.Class("get-with-cancelled-context")
				}
				pool.start(w, func() any {
					v, err := q.get(ctx)
					return c29GetRes{v, err}
				})
			default:
				r.Class("unknown-op(no-op)")
			}
		}
		if len(acts) > 1 {
			r.Class("batch-step")
		}
		results := pool.settle()

		// first the mutator: it fixes the final FIFO content of this step
		final := items
		for _, res := range results {
			if p, ok := res.out.(c29Panic); ok {
				return fmt.Errorf("%s: worker %d: queue operation panicked: %s", si, res.w, p.msg)
			}
			if ws[res.w].state == c29InPut {
				ok := res.out.(bool)
				switch {
				case ok:
					final = append(append([]int(nil), items...), putItem)
					if closedAtStart {
						r.Class("stat:put-accepted-after-close")
					}
				case !closedAtStart:
					return fmt.Errorf("%s: worker %d: put(%d) was refused although the queue has not been closed (the item will never be delivered)", si, res.w, putItem)
				default:
					r.Class("put-refused-after-close")
				}
			}
		}
		var got []int
		for _, res := range results {
			wk := &ws[res.w]
			st := wk.state
			wk.state = c29Idle
			if st != c29InGet {
				continue
			}
			wk.cancel()
			gr := res.out.(c29GetRes)
			if gr.err == nil {
				got = append(got, gr.v)
				if wk.wasBlocked {
					r.Class("blocked-get-woken-by-put")
				}
				if closedAtStart {
					r.Class("stat:item-delivered-after-close")
				}
				continue
			}
			var ce *c29CloseErr
			switch {
			case errors.As(gr.err, &ce):
				if !closeIDs[ce.id] {
					return fmt.Errorf("%s: worker %d: get returned the error of a close that never started", si, res.w)
				}
				if wk.wasBlocked {
					r.Class("blocked-get-woken-by-close")
				}
			case wk.cancelled:
				if !errors.Is(gr.err, context.Canceled) {
					r.Class("stat:get-error-not-ctx-err")
				}
				r.Class("get-returned-ctx-error")
			default:
				return fmt.Errorf("%s: worker %d: get returned error %q although the queue is not closed and its context is not done", si, res.w, gr.err)
			}
		}
		// the k items delivered in this step must be the first k of the FIFO
		k := len(got)
		if k > len(final) {
			return fmt.Errorf("%s: %d items %v delivered but only %v were queued", si, k, got, final)
		}
		head := map[int]bool{}
		for _, v := range final[:k] {
			head[v] = true
		}
		seen := map[int]bool{}
		for _, v := range got {
			switch {
			case seen[v] || delivered[v]:
				return fmt.Errorf("%s: item %d delivered twice", si, v)
			case !head[v]:
				return fmt.Errorf("%s: item %d delivered out of FIFO order (queue was %v, delivered in this step %v)", si, v, final, got)
			}
			seen[v] = true
		}
		for _, v := range got {
			delivered[v] = true
		}
		items = final[k:]
		// quiescent-state constraints
		blocked := 0
		for w := range ws {
			wk := &ws[w]
			wk.wasBlocked = false
			if !pool.busy[w] {
				continue
			}
			switch wk.state {
			case c29InPut:
				return fmt.Errorf("%s: worker %d: put is blocked although no operation holds the queue (lost wake-up)", si, w)
			case c29InClose:
				return fmt.Errorf("%s: worker %d: close is blocked although no operation holds the queue (lost wake-up)", si, w)
			case c29InGet:
				switch {
				case closed:
					return fmt.Errorf("%s: worker %d is still blocked in get although the queue has been closed (close did not wake it)", si, w)
				case wk.cancelled:
					return fmt.Errorf("%s: worker %d is still blocked in get although its context is done (lost wake-up)", si, w)
				case len(items) > 0:
					return fmt.Errorf("%s: worker %d is still blocked in get although items %v are queued (lost wake-up)", si, w, items)
				}
			}
			wk.wasBlocked = true
			blocked++
		}
		if blocked > maxBlocked {
			maxBlocked = blocked
		}
		return nil
	}
	fail := func(err error) error {
		for w := range ws {
			if ws[w].cancel != nil {
				ws[w].cancel()
			}
		}
		synctest.Wait()
		if !pool.idle() {
			q.err = errors.New("c29: clean-up") // every other goroutine is blocked
		}
		if c29Flood(&q.gate, 12*n+12, pool.idle) {
			pool.stop()
		}
		return err
	}
	for i, acts := range c.Sched {
		if err := step(fmt.Sprintf("step %d", i), acts, false); err != nil {
			return fail(err)
		}
	}
	if !closed && len(items) > 0 {
		r.Class("items-left-at-end")
	}
	// Release everything: close must wake every blocked getter.
	if err := step("release", []c29QAct{{Op: "close"}}, true); err != nil {
		return fail(err)
	}
	for w := range ws {
		if pool.busy[w] {
			return fail(fmt.Errorf("release: worker %d never returned", w))
		}
	}
	pool.stop()
	if maxBlocked >= 2 {
		r.Class("blocked>=2")
	}
	if len(delivered) >= 3 {
		r.Class("delivered>=3")
	}
	if maxBlocked >= 2 && eventWhileBlocked {
		r.NonTrivial()
		r.Class("nt:queue")
	}
	return nil
}

func TestVP_C29_queue(t *testing.T) {
	vp.Run(t, vp.Spec[c29QueueCase]{ID: "C29", Sub: "queue", Gen: c29QueueGen, Prop: c29QueueProp})
}

// ---------------------------------------------------------------------------
// stress: real parallelism, only schedule-independent invariants. It runs inside a
// bubble as well (goroutines of a bubble still run in parallel): a lost wake-up then
// shows up as synctest's deadlock panic instead of a wall-clock timeout.

type c29StressCase struct {
	Kind      string `json:"kind"` // "gate-quic" | "gate-internal" | "queue"
	A         int    `json:"a"`    // gate: lockers          queue: producers
	B         int    `json:"b"`    // gate: waiters          queue: consumers
	C         int    `json:"c"`    // gate: lockIfSet users  queue: 0
	Iter      int    `json:"iter"`
	Cancel    int    `json:"cancel"`     // every Cancel-th wait/get uses a context cancelled concurrently (0: never)
	CloseAt   int    `json:"close_at"`   // queue: close after this many items were received (0: after all)
	Seed      uint32 `json:"seed"`       // varies the per-goroutine choice of unlock(set)
	InitSet   bool   `json:"init_set"`   // gate: initial condition
	GoschedIn bool   `json:"gosched_in"` // yield while holding the gate
}

func c29StressGen(t *rapid.T) c29StressCase {
	scale := 1
	if vp.Thorough() {
		scale = 4
	}
	return c29StressCase{
		Kind:      rapid.SampledFrom([]string{"gate-quic", "gate-internal", "queue", "queue"}).Draw(t, "kind"),
		A:         rapid.IntRange(1, 4).Draw(t, "a"),
		B:         rapid.IntRange(1, 4).Draw(t, "b"),
		C:         rapid.IntRange(0, 2).Draw(t, "c"),
		Iter:      rapid.IntRange(1, 40*scale).Draw(t, "iter"),
		Cancel:    rapid.SampledFrom([]int{0, 1, 2, 3, 5}).Draw(t, "cancel"),
		CloseAt:   rapid.SampledFrom([]int{0, 0, 1, 3, 10, 50}).Draw(t, "closeAt"),
		Seed:      rapid.Uint32().Draw(t, "seed"),
		InitSet:   rapid.Bool().Draw(t, "initSet"),
		GoschedIn: rapid.Bool().Draw(t, "goschedIn"),
	}
}

type c29Failure struct {
	mu  sync.Mutex
	err error
}

func (f *c29Failure) set(format string, a ...any) {
	f.mu.Lock()
	if f.err == nil {
		f.err = fmt.Errorf(format, a...)
	}
	f.mu.Unlock()
}

func c29StressProp(c c29StressCase, r *vp.Rec) error {
	if c.A < 1 || c.B < 1 || c.C < 0 || c.A > 16 || c.B > 16 || c.C > 16 || c.Iter < 1 || c.Iter > 100000 {
		r.Discard("malformed case")
		return nil
	}
	r.Classf("stress:%s", c.Kind)
	if c.A+c.B+c.C >= 3 && c.Iter >= 5 {
		r.NonTrivial()
		r.Class("nt:stress")
	}
	if c.Kind == "queue" {
		return c29InBubble(func() error { return c29StressQueue(c, r) })
	}
	return c29InBubble(func() error { return c29StressGate(c, r) })
}

func c29StressGate(c c29StressCase, r *vp.Rec) error {
	var g c29Gate
	if c.Kind == "gate-internal" {
		g = &c29IntGate{g: igate.New(c.InitSet)}
	} else {
		q := &c29QuicGate{g: newLockedGate()}
		q.g.unlock(c.InitSet)
		g = q
	}
	var fail c29Failure
	var abort atomic.Bool // clean-up after a verdict: everybody leaves
	var inside atomic.Int32
	var acquisitions atomic.Int64
	var lockersDone, othersDone, finalDone atomic.Int32
	counter := 0        // protected by the gate
	shadow := c.InitSet // protected by the gate: value passed to the last unlock
	critical := func(who string, viaWait bool, set bool) {
		if abort.Load() {
			return
		}
		if !inside.CompareAndSwap(0, 1) {
			fail.set("two goroutines are inside the gate at once (%s entered while another holds it)", who)
		}
		if viaWait && !shadow {
			fail.set("waitAndLock returned nil although the last unlock left the condition unset")
		}
		counter++
		if c.GoschedIn {
			runtime.Gosched()
		}
		shadow = set
		acquisitions.Add(1)
		inside.Store(0)
		g.unlock(set)
	}
	for i := 0; i < c.A; i++ {
		go func(i int) {
			defer lockersDone.Add(1)
			x := c.Seed + uint32(i)*2654435761
			for k := 0; k < c.Iter && !abort.Load(); k++ {
				x = x*1664525 + 1013904223
				g.lock()
				critical("lock", false, x>>31 == 1)
			}
		}(i)
	}
	for i := 0; i < c.B; i++ {
		go func(i int) {
			defer othersDone.Add(1)
			for k := 0; k < c.Iter && !abort.Load(); k++ {
				ctx, cancel := context.WithCancel(context.Background())
				if c.Cancel > 0 && (k+i)%c.Cancel == 0 {
					go cancel()
				}
				err := g.waitAndLock(ctx)
				if err == nil {
					critical("waitAndLock", true, true)
				} else if ctx.Err() == nil {
					fail.set("waitAndLock returned error %q although its context is not done", err)
				}
				cancel()
			}
		}(i)
	}
	for i := 0; i < c.C; i++ {
		go func() {
			defer othersDone.Add(1)
			for k := 0; k < c.Iter && !abort.Load(); k++ {
				if g.lockIfSet() {
					critical("lockIfSet", false, true)
				} else {
					runtime.Gosched()
				}
			}
		}()
	}
	stuck := func(format string, a ...any) error {
		err := fmt.Errorf(format, a...)
		if fail.err != nil {
			err = fail.err // the first broken invariant explains the hang
		}
		abort.Store(true)
		c29Flood(c29RawGate(g), 16*(c.A+c.B+c.C)+16, func() bool {
			return int(lockersDone.Load()) == c.A && int(othersDone.Load()) == c.B+c.C && finalDone.Load() == 1
		})
		return err
	}
	// Quiescence: every goroutine has finished or is durably blocked. A lock() caller
	// can only be blocked while somebody holds the gate, and a holder never blocks, so
	// all lockers must be through. Waiters may be parked on the unset condition.
	synctest.Wait()
	if n := int(lockersDone.Load()); n != c.A {
		go finalDone.Store(1)
		return stuck("%d of %d goroutines are blocked forever in lock() although nobody holds the gate (lost wake-up)", c.A-n, c.A)
	}
	// From here on the condition stays set: every remaining waiter must get through.
	go func() {
		defer finalDone.Store(1)
		g.lock()
		critical("final lock", false, true)
	}()
	synctest.Wait()
	if finalDone.Load() != 1 {
		return stuck("lock() blocks forever although nobody holds the gate (lost wake-up)")
	}
	if n := int(othersDone.Load()); n != c.B+c.C {
		return stuck("%d goroutines are blocked forever in waitAndLock although the gate is unlocked with the condition set (lost wake-up)", c.B+c.C-n)
	}
	if fail.err != nil {
		return fail.err
	}
	if int64(counter) != acquisitions.Load() {
		return fmt.Errorf("counter protected by the gate is %d after %d acquisitions (lost update: exclusion failure)", counter, acquisitions.Load())
	}
	return nil
}

var c29ErrStressClosed = errors.New("c29 stress: queue closed")

func c29StressQueue(c c29StressCase, r *vp.Rec) error {
	q := newQueue[int]()
	total := c.A * c.Iter
	closeAt := total
	if c.CloseAt > 0 && c.CloseAt < total {
		closeAt = c.CloseAt
		r.Class("stress:queue-early-close")
	}
	var fail c29Failure
	var abort atomic.Bool
	var received atomic.Int64
	var prodsDone, consDone, closerDone atomic.Int32
	reached := make(chan struct{})
	var reachedOnce sync.Once
	accepted := make([]int, c.A) // per producer: number of puts that returned true
	for p := 0; p < c.A; p++ {
		go func(p int) {
			defer prodsDone.Add(1)
			refused := false
			for s := 0; s < c.Iter && !abort.Load(); s++ {
				if q.put(p<<20 | s) {
					if refused {
						fail.set("producer %d: put accepted after an earlier put was refused", p)
					}
					accepted[p]++
				} else {
					refused = true
				}
			}
		}(p)
	}
	got := make([][]int, c.B)
	for i := 0; i < c.B; i++ {
		go func(i int) {
			defer consDone.Add(1)
			// The number of cancelled gets is bounded, so that a consumer that can
			// never get an item ends up durably blocked (and is detected) instead of
			// retrying forever.
			budget := 2*c.Iter + 2
			for k := 0; !abort.Load(); k++ {
				ctx, cancel := context.WithCancel(context.Background())
				if c.Cancel > 0 && (k+i)%c.Cancel == 0 && budget > 0 {
					budget--
					go cancel()
				}
				v, err := q.get(ctx)
				done := ctx.Err() != nil
				cancel()
				switch {
				case err == nil:
					got[i] = append(got[i], v)
					if received.Add(1) == int64(closeAt) {
						reachedOnce.Do(func() { close(reached) })
					}
				case err == c29ErrStressClosed:
					return
				case done:
					// cancelled: try again
				default:
					if !abort.Load() {
						fail.set("get returned error %q although the queue is not closed and its context is not done", err)
					}
					return
				}
			}
		}(i)
	}
	go func() {
		defer closerDone.Add(1)
		<-reached
		if !abort.Load() {
			q.close(c29ErrStressClosed)
		}
	}()
	// Quiescence: producers never block for long, the consumers drain the queue, the
	// closer closes it after closeAt items and every consumer leaves. Whoever is still
	// there is blocked forever.
	synctest.Wait()
	if int(prodsDone.Load()) != c.A || int(consDone.Load()) != c.B || closerDone.Load() != 1 {
		err := fmt.Errorf("blocked forever: %d of %d producers, %d of %d consumers, closer waiting: %v; %d of %d items received, %d needed before close (lost item or lost wake-up)",
			c.A-int(prodsDone.Load()), c.A, c.B-int(consDone.Load()), c.B, closerDone.Load() != 1, received.Load(), total, closeAt)
		if fail.err != nil {
			err = fail.err
		}
		abort.Store(true)
		reachedOnce.Do(func() { close(reached) })
		q.err = c29ErrStressClosed // every other goroutine is blocked
		c29Flood(&q.gate, 16*(c.A+c.B)+16, func() bool {
			return int(prodsDone.Load()) == c.A && int(consDone.Load()) == c.B && closerDone.Load() == 1
		})
		return err
	}
	if fail.err != nil {
		return fail.err
	}
	// every received item was put (and accepted), none twice; per consumer the items of
	// one producer arrive in put order; per producer the delivered items are a prefix
	// of the accepted ones (complete when the queue was closed after everything).
	perProd := make([][]bool, c.A)
	for p := range perProd {
		perProd[p] = make([]bool, c.Iter)
	}
	for i, l := range got {
		last := make([]int, c.A)
		for p := range last {
			last[p] = -1
		}
		for _, v := range l {
			p, s := v>>20, v&(1<<20-1)
			if p < 0 || p >= c.A || s >= c.Iter {
				return fmt.Errorf("consumer %d received %#x, which was never put", i, v)
			}
			if s >= accepted[p] {
				return fmt.Errorf("consumer %d received item %d of producer %d, whose put was refused", i, s, p)
			}
			if perProd[p][s] {
				return fmt.Errorf("item %d of producer %d delivered twice", s, p)
			}
			perProd[p][s] = true
			if s <= last[p] {
				return fmt.Errorf("consumer %d received item %d of producer %d after item %d (FIFO order violated)", i, s, p, last[p])
			}
			last[p] = s
		}
	}
	n := 0
	for p := range perProd {
		gap := false
		for s, d := range perProd[p] {
			if d {
				n++
				if gap {
					return fmt.Errorf("item %d of producer %d was delivered but an earlier item of it was skipped", s, p)
				}
			} else {
				gap = true
			}
		}
	}
	if closeAt == total && n != total {
		return fmt.Errorf("%d items put before close, %d delivered", total, n)
	}
	return nil
}

func TestVP_C29_stress(t *testing.T) {
	vp.Run(t, vp.Spec[c29StressCase]{ID: "C29", Sub: "stress", Gen: c29StressGen, Prop: c29StressProp})
}
