package quic

// C25 (part 3, "lh"): duplicate suppression and the unsent-ACK check in the Initial and
// Handshake number spaces (long-header packets, conn_recv.go handleLongHeader), which the
// post-handshake check c25_conn_test.go cannot reach.
//
// One quic.Conn whose handshake is started but never completed (the peer withholds its
// Handshake CRYPTO data, so Handshake keys stay). The peer sends Initial and Handshake
// packets with drawn small numbers carrying a PING, or an ACK frame that names a packet
// number the conn never sent in that space ("bad ACK"). "Processed" is observable through
// the bad ACK: processing it closes the connection.
//
//   - ACK frames from the conn ⊆ numbers the peer sent in that space;
//   - a packet whose number the conn has already acknowledged (so: processed) and that
//     now carries a bad ACK must be dropped as a duplicate: no CONNECTION_CLOSE;
//   - a bad ACK in a packet with a number above everything sent before in a space whose
//     keys are certainly still in use closes the connection with PROTOCOL_VIOLATION.

import (
	"crypto/tls"
	"fmt"
	"testing"

	"pgregory.net/rapid"
	"verif/vp"
)

type c25LHStep struct {
	HS  bool  `json:"hs"`  // Handshake space (else Initial)
	N   int64 `json:"n"`   // packet number
	Bad bool  `json:"bad"` // carry an ACK for a never-sent number instead of a PING
}

type c25LHCase struct {
	Server bool        `json:"server"`
	First  int64       `json:"first"` // number of the Initial packet that carries the peer's first flight
	Steps  []c25LHStep `json:"steps"`
}

func c25LHGen(t *rapid.T) c25LHCase {
	c := c25LHCase{Server: rapid.Bool().Draw(t, "server"), First: rapid.Int64Range(0, 3).Draw(t, "first")}
	cur := [2]int64{c.First, -1}
	step := rapid.Custom(func(t *rapid.T) c25LHStep {
		s := c25LHStep{HS: rapid.IntRange(0, 2).Draw(t, "hs") != 0}
		badOld, badNew := rapid.Bool().Draw(t, "badold"), rapid.IntRange(0, 9).Draw(t, "badnew") == 0
		i := 0
		if s.HS {
			i = 1
		}
		switch k := rapid.IntRange(0, 9).Draw(t, "nk"); {
		case k < 3:
			s.N = cur[i] + 1
		case k < 5:
			s.N = cur[i] + rapid.Int64Range(2, 3).Draw(t, "gap")
		default:
			s.N = rapid.Int64Range(0, max(cur[i], 0)).Draw(t, "old")
		}
		s.N = min(s.N, 60)
		s.Bad = badOld
		if s.N > cur[i] {
			s.Bad = badNew
		}
		cur[i] = max(cur[i], s.N)
		return s
	})
	c.Steps = rapid.SliceOfN(step, 1, 30).Draw(t, "steps")
	return c
}

func c25LHRun(t *testing.T, c c25LHCase, r *vp.Rec) error {
	side := clientSide
	if c.Server {
		side = serverSide
	}
	tc := newTestConn(t, side)

	var peerSent, acked [2]map[int64]bool // per space (0 Initial, 1 Handshake)
	for i := range peerSent {
		peerSent[i], acked[i] = map[int64]bool{}, map[int64]bool{}
	}
	peerMax := [2]int64{-1, -1}
	connMax := [2]int64{-1, -1}
	connSentHS, peerSentHS := false, false
	gotClose, closeCode := false, transportError(0)

	drain := func() error {
		for {
			d := tc.readDatagram()
			if d == nil {
				return nil
			}
			for _, p := range d.packets {
				if p.ptype != packetTypeInitial && p.ptype != packetTypeHandshake {
					continue
				}
				sp := 0
				if p.ptype == packetTypeHandshake {
					sp = 1
					connSentHS = true
				}
				connMax[sp] = max(connMax[sp], int64(p.num))
				for _, fr := range p.frames {
					switch f := fr.(type) {
					case debugFrameAck:
						if err := c25Subset(f.ranges, peerSent[sp], fmt.Sprintf("ACK frame %v in %v packet %d", f, p.ptype, p.num)); err != nil {
							return err
						}
						for _, rg := range f.ranges {
							for n := rg.start; n < rg.end; n++ {
								acked[sp][int64(n)] = true
							}
						}
					case debugFrameConnectionCloseTransport:
						gotClose, closeCode = true, f.code
					}
				}
			}
		}
	}
	send := func(sp int, num int64, frames ...debugFrame) {
		ptype := packetTypeInitial
		dst := tc.conn.connIDState.local[0].cid
		if sp == 1 {
			ptype = packetTypeHandshake
			peerSentHS = true
			if tc.conn.connIDState.local[0].seq == -1 && len(tc.conn.connIDState.local) > 1 {
				dst = tc.conn.connIDState.local[1].cid
			}
		}
		peerSent[sp][num] = true
		peerMax[sp] = max(peerMax[sp], num)
		tc.write(&testDatagram{
			packets: []*testPacket{{
				ptype:     ptype,
				num:       packetNumber(num),
				version:   quicVersion1,
				dstConnID: dst,
				srcConnID: tc.peerConnID,
				frames:    frames,
			}},
			paddedSize: 1200,
			addr:       tc.conn.peerAddr,
		})
	}

	if err := drain(); err != nil { // a client conn sends its Initial flight
		return err
	}
	// The peer's first flight: the complete Initial CRYPTO data.
	send(0, c.First, debugFrameCrypto{data: tc.cryptoDataIn[tls.QUICEncryptionLevelInitial]})
	if err := drain(); err != nil {
		return err
	}
	if gotClose || !tc.keysHandshake.w.isSet() {
		r.Discard("handshake did not start")
		return nil
	}

	nontrivial := false
	for si, st := range c.Steps {
		sp := 0
		if st.HS {
			sp = 1
		}
		// Are the keys of this space certainly still in use at the conn?
		live := sp == 1 || (!peerSentHS && (c.Server || !connSentHS))
		fresh := st.N > peerMax[sp]
		dupProcessed := acked[sp][st.N]
		if !st.Bad {
			send(sp, st.N, debugFramePing{})
			if dupProcessed {
				r.Class("dup-ping")
			}
		} else {
			bad := packetNumber(connMax[sp] + 1)
			send(sp, st.N, debugFrameAck{ranges: []i64range[packetNumber]{{bad, bad + 1}}})
		}
		if err := drain(); err != nil {
			return err
		}
		if st.Bad {
			switch {
			case dupProcessed:
				r.Class("bad-ack-in-duplicate")
				nontrivial = true
				if gotClose {
					return fmt.Errorf("step %d: %v packet number %d was processed twice: the conn had acknowledged it, a second packet with that number carrying an ACK for a never-sent number closed the connection (%v)", si, map[bool]string{false: "Initial", true: "Handshake"}[st.HS], st.N, closeCode)
				}
			case fresh && live:
				r.Class("bad-ack-in-new-packet")
				if !gotClose {
					return fmt.Errorf("step %d: the peer acknowledged never-sent %v packet number %d in packet %d and the connection was not closed", si, map[bool]string{false: "Initial", true: "Handshake"}[st.HS], connMax[sp]+1, st.N)
				}
				if closeCode != errProtocolViolation {
					return fmt.Errorf("step %d: ACK for a never-sent packet number: CONNECTION_CLOSE code %v, want PROTOCOL_VIOLATION", si, closeCode)
				}
			default:
				r.Class("bad-ack-undetermined")
			}
		}
		if gotClose {
			if !st.Bad {
				r.Class("unexpected-close")
			}
			break
		}
	}
	if nontrivial {
		r.NonTrivial()
	}
	return nil
}

func TestVP_C25_lh(t *testing.T) {
	vp.Run(t, vp.Spec[c25LHCase]{ID: "C25", Sub: "lh", CrashFile: true, Gen: c25LHGen, Prop: func(c c25LHCase, r *vp.Rec) error {
		return vp.Bubble(func(bt *testing.T) error { return c25LHRun(bt, c, r) })
	}})
}
