package quic

// C25 (part 1, "acks"): direct histories of one ackState (quic/acks.go) against a
// set-of-processed-numbers model, plus the ACK frame the packet writer builds from
// it (quic/packet_writer.go appendAckFrame).
//
// The harness follows the protocol of conn_recv.go: receive(n) is called only after
// shouldProcess(n) returned true. Clauses decided here:
//   - a packet number that has been processed is never processed again
//     (shouldProcess is false for every processed number, also after the range that
//     held it was discarded by the 8-range cap or by handleAck);
//   - an ACK frame never acknowledges a number that was not received (every number in
//     acksToSend, and every range of the encoded-then-parsed ACK frame, was processed).

import (
	"flag"
	"fmt"
	"strconv"
	"testing"
	"time"

	"pgregory.net/rapid"
	"verif/vp"
)

type c25AckOp struct {
	Kind string `json:"kind"` // recv | sent | hack | time
	N    int64  `json:"n"`    // recv: packet number; hack: index into the ACKs sent so far; time: milliseconds
	AE   bool   `json:"ae,omitempty"`
	ECN  int    `json:"ecn,omitempty"`
}

type c25AcksCase struct {
	Space int        `json:"space"` // number space of the ackState
	Lim   int        `json:"lim"`   // datagram size limit for the encoded ACK frame
	Ops   []c25AckOp `json:"ops"`
}

func c25AcksGen(t *rapid.T) c25AcksCase {
	c := c25AcksCase{
		Space: rapid.IntRange(0, int(numberSpaceCount)-1).Draw(t, "space"),
		Lim:   rapid.SampledFrom([]int{64, 80, 100, 1200}).Draw(t, "lim"),
	}
	// Packet numbers follow a moving front like real traffic: mostly the next number,
	// small gaps (many ranges, so the 8-range cap prunes), late and duplicate arrivals a
	// little or far behind the front, exact repeats of earlier numbers, rare far jumps.
	cur := rapid.SampledFrom([]int64{-1, -1, -1, 99, 1<<31 - 10, 1<<62 - 400}).Draw(t, "start")
	var drawn []int64
	num := rapid.Custom(func(t *rapid.T) int64 {
		var n int64
		switch k := rapid.IntRange(0, 19).Draw(t, "nk"); {
		case k < 6:
			n = cur + 1
		case k < 10:
			n = cur + rapid.Int64Range(2, 4).Draw(t, "gap")
		case k < 14:
			n = cur - rapid.Int64Range(0, 24).Draw(t, "back")
		case k < 17 && len(drawn) > 0:
			n = drawn[rapid.IntRange(0, len(drawn)-1).Draw(t, "again")]
		case k < 18:
			n = rapid.Int64Range(0, max(cur, 0)).Draw(t, "any")
		case k < 19:
			n = cur + rapid.SampledFrom([]int64{100, 1000, 1 << 20}).Draw(t, "jump")
		default:
			n = cur + 1
		}
		n = min(max(n, 0), 1<<62-1)
		cur = max(cur, n)
		drawn = append(drawn, n)
		return n
	})
	op := rapid.Custom(func(t *rapid.T) c25AckOp {
		switch k := rapid.IntRange(0, 19).Draw(t, "k"); {
		case k < 14:
			return c25AckOp{Kind: "recv", N: num.Draw(t, "n"), AE: rapid.IntRange(0, 3).Draw(t, "ae") != 0,
				ECN: rapid.SampledFrom([]int{0, 0, 0, 1, 2, 3}).Draw(t, "ecn")}
		case k < 16:
			return c25AckOp{Kind: "sent"}
		case k < 18:
			return c25AckOp{Kind: "hack", N: rapid.Int64Range(0, 15).Draw(t, "i")}
		default:
			return c25AckOp{Kind: "time", N: rapid.SampledFrom([]int64{0, 1, 24, 25, 1000}).Draw(t, "ms")}
		}
	})
	// rapid's slices are short on average; ask for long histories explicitly.
	minLen := rapid.SampledFrom([]int{1, 10, 30, 60}).Draw(t, "minlen")
	c.Ops = rapid.SliceOfN(op, minLen, 120).Draw(t, "ops")
	return c
}

// c25Subset reports an error unless every number of every range is in set.
func c25Subset(ranges []i64range[packetNumber], set map[int64]bool, what string) error {
	for _, rg := range ranges {
		if rg.start >= rg.end {
			return fmt.Errorf("%s contains the empty or inverted range [%d,%d)", what, rg.start, rg.end)
		}
		if uint64(rg.end-rg.start) > uint64(len(set)) {
			return fmt.Errorf("%s acknowledges [%d,%d): more numbers than were ever received (%d)", what, rg.start, rg.end, len(set))
		}
		for n := rg.start; n < rg.end; n++ {
			if !set[int64(n)] {
				return fmt.Errorf("%s acknowledges packet number %d (range [%d,%d)), which was never received", what, n, rg.start, rg.end)
			}
		}
	}
	return nil
}

func c25AcksProp(c c25AcksCase, r *vp.Rec) error {
	var acks ackState
	space := numberSpace(c.Space)
	now := time.Date(2000, 1, 1, 0, 0, 0, 0, time.UTC)
	processed := map[int64]bool{}
	var sentLargest []packetNumber // Largest Acknowledged of every ACK frame "sent"
	var w packetWriter
	dupForgotten := false
	for i, o := range c.Ops {
		switch o.Kind {
		case "recv":
			n := packetNumber(o.N)
			inSeen := acks.seen.contains(n)
			if acks.shouldProcess(n) {
				if processed[o.N] {
					return fmt.Errorf("op %d: shouldProcess(%d) is true although packet %d was processed before (seen=%v)", i, n, n, acks.seen)
				}
				before, oldMin := acks.seen.numRanges(), acks.seen.min()
				ecn := ecnBits([]byte{ecnNotECT, ecnECT0, ecnECT1, ecnCE}[o.ECN&3])
				acks.receive(now, space, n, o.AE, ecn)
				processed[o.N] = true
				if before == 8 && acks.seen.min() > oldMin {
					r.Class("pruned-by-range-cap")
				}
			} else if processed[o.N] {
				if inSeen {
					r.Class("dup-in-seen")
				} else {
					r.Class("dup-of-forgotten")
					dupForgotten = true
				}
			} else {
				r.Class("new-number-refused(below-oldest-range)")
			}
		case "sent":
			nums, _ := acks.acksToSend(now)
			if len(nums) > 0 {
				sentLargest = append(sentLargest, nums.max())
				acks.sentAck()
			}
		case "hack":
			if len(sentLargest) == 0 {
				continue
			}
			before := acks.seen.numRanges()
			acks.handleAck(sentLargest[int(o.N)%len(sentLargest)])
			if acks.seen.numRanges() < before {
				r.Class("ranges-dropped-by-handleAck")
			}
		case "time":
			now = now.Add(time.Duration(o.N) * time.Millisecond)
		}
		// Everything the connection would put into an ACK frame now.
		nums, delay := acks.acksToSend(now)
		if err := c25Subset(nums, processed, fmt.Sprintf("op %d: acksToSend", i)); err != nil {
			return err
		}
		if len(nums) > 0 {
			// ... and what the packet writer makes of it (ranges may be dropped for
			// lack of room, never invented).
			w.reset(c.Lim)
			w.start1RTTPacket(0, -1, []byte{1, 2, 3, 4, 5, 6, 7, 8})
			if w.appendAckFrame(nums, unscaledAckDelayFromDuration(delay, ackDelayExponent), acks.ecn) {
				f, n := parseDebugFrameAck(w.payload())
				if n != len(w.payload()) {
					return fmt.Errorf("op %d: encoded ACK frame for %v does not parse back (n=%d, len=%d)", i, nums, n, len(w.payload()))
				}
				if err := c25Subset(f.ranges, processed, fmt.Sprintf("op %d: encoded ACK frame (limit %d) for %v", i, c.Lim, nums)); err != nil {
					return err
				}
				if len(f.ranges) < len(nums) {
					r.Class("frame-dropped-ranges")
				}
			}
			w.abandonPacket()
		}
	}
	if dupForgotten {
		r.NonTrivial()
	}
	return nil
}

// c25AcksFactor: the connection-level check of C25 costs a QUIC handshake per case,
// this one microseconds; both receive the same -rapid.checks, so this test runs that
// many cases times c25AcksFactor.
const c25AcksFactor = 40

func TestVP_C25_acks(t *testing.T) {
	if f := flag.Lookup("rapid.checks"); f != nil {
		if n, err := strconv.Atoi(f.Value.String()); err == nil && n > 0 {
			old := f.Value.String()
			flag.Set("rapid.checks", strconv.Itoa(n*c25AcksFactor))
			defer flag.Set("rapid.checks", old)
		}
	}
	vp.Run(t, vp.Spec[c25AcksCase]{ID: "C25", Sub: "acks", Gen: c25AcksGen, Prop: c25AcksProp})
}
