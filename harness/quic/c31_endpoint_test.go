package quic

// C31, at the endpoint: the same acceptance rule seen from where a client meets it. A
// server endpoint with RequireAddressValidation answers a token-less Initial with a
// Retry; the second Initial carries the token, possibly modified, possibly from
// another address or port, with other connection IDs, or late. A connection may come
// into being only when nothing was changed and the token is within its validity period
// (whole seconds: the token's time stamp has that resolution).

import (
	"bytes"
	"fmt"
	"net/netip"
	"testing"
	"testing/synctest"
	"time"

	"pgregory.net/rapid"
	"verif/vp"
)

type c31eCase struct {
	TokenMut int `json:"token_mut"` // 0 none, 1 flip bit TokenPos, 2 append a byte, 3 drop the last byte, 4 drop the first byte, 5 token of another exchange
	TokenPos int `json:"token_pos"`
	Addr     int `json:"addr"`   // 0 same, 1 other IP, 2 other port
	Dst      int `json:"dst"`    // 0 the Retry's source connection ID, 1 one bit flipped, 2 the original destination ID, 3 one byte shorter
	Src      int `json:"src"`    // 0 the client's source connection ID, 1 one bit flipped
	AfterS   int `json:"after_s"` // seconds between the Retry and the second Initial
}

func c31eGen(t *rapid.T) c31eCase {
	var c c31eCase
	v := int(retryTokenValidityPeriod / time.Second)
	c.AfterS = rapid.SampledFrom([]int{0, 0, 1, v - 1, v, v, v + 1, 2 * v, 100 * v}).Draw(t, "after")
	// mostly one change at a time; sometimes none, sometimes several
	switch k := rapid.IntRange(0, 9).Draw(t, "what"); {
	case k <= 1:
	case k <= 4:
		c.TokenMut = rapid.IntRange(1, 5).Draw(t, "tokenMut")
	case k == 5:
		c.Addr = rapid.IntRange(1, 2).Draw(t, "addr")
	case k == 6:
		c.Dst = rapid.IntRange(1, 3).Draw(t, "dst")
	case k == 7:
		c.Src = 1
	default:
		c.TokenMut = rapid.IntRange(0, 5).Draw(t, "tokenMut")
		c.Addr = rapid.IntRange(0, 2).Draw(t, "addr")
		c.Dst = rapid.IntRange(0, 3).Draw(t, "dst")
		c.Src = rapid.IntRange(0, 1).Draw(t, "src")
	}
	c.TokenPos = rapid.IntRange(0, 1023).Draw(t, "tokenPos")
	return c
}

// c31eRetry is newRetryServerTest (retry_test.go) with the client's address spelled
// out: a token-less Initial from testClientAddr, answered by a Retry.
func c31eRetry(t *testing.T) (*retryServerTest, error) {
	config := &Config{TLSConfig: newTestTLSConfig(serverSide), RequireAddressValidation: true}
	te := newTestEndpoint(t, config)
	srcID := testPeerConnID(0)
	dstID := testLocalConnID(-1)
	params := defaultTransportParameters()
	params.initialSrcConnID = srcID
	initialCrypto := initialClientCrypto(t, te, params)
	te.writeDatagram(&testDatagram{
		packets: []*testPacket{{
			ptype:     packetTypeInitial,
			num:       0,
			version:   quicVersion1,
			srcConnID: srcID,
			dstConnID: dstID,
			frames:    []debugFrame{debugFrameCrypto{data: initialCrypto}},
		}},
		paddedSize: 1200,
		addr:       testClientAddr,
	})
	got := te.readDatagram()
	if got == nil || len(got.packets) != 1 || got.packets[0].ptype != packetTypeRetry {
		return nil, fmt.Errorf("a token-less Initial was answered with %v, want a Retry packet", got)
	}
	p := got.packets[0]
	if len(te.acceptQueue) > 0 {
		return nil, fmt.Errorf("the endpoint created a connection for a token-less Initial although RequireAddressValidation is set")
	}
	return &retryServerTest{
		te:                te,
		originalSrcConnID: srcID,
		originalDstConnID: dstID,
		retry:             retryPacket{dstConnID: p.dstConnID, srcConnID: p.srcConnID, token: p.token},
		initialCrypto:     initialCrypto,
	}, nil
}

func c31eProp(c c31eCase, r *vp.Rec) error {
	if c.AfterS < 0 || c.AfterS > 1<<20 || c.TokenPos < 0 {
		r.Discard("malformed case")
		return nil
	}
	return vp.Bubble(func(t *testing.T) error {
		rt, err := c31eRetry(t)
		if err != nil {
			return err
		}
		te := rt.te
		token := append([]byte(nil), rt.retry.token...)
		if len(token) == 0 {
			return fmt.Errorf("the Retry packet carries no token")
		}
		switch c.TokenMut {
		case 1:
			bit := c.TokenPos % (8 * len(token))
			token[bit/8] ^= 1 << (bit % 8)
		case 2:
			token = append(token, byte(c.TokenPos))
		case 3:
			token = token[:len(token)-1]
		case 4:
			token = token[1:]
		case 5:
			// a genuine token of this endpoint, issued to the same client for another
			// exchange (other connection IDs)
			rt2tok, _, err := te.e.retry.makeToken(time.Now(), testPeerConnID(7), testLocalConnID(-2), testClientAddr)
			if err != nil {
				return fmt.Errorf("harness: makeToken: %v", err)
			}
			token = rt2tok
		}
		if len(token) == 0 {
			r.Discard("token became empty (a token-less Initial gets another Retry)")
			return nil
		}
		addr := testClientAddr
		switch c.Addr {
		case 1:
			addr = netip.AddrPortFrom(netip.MustParseAddr("10.0.0.2"), testClientAddr.Port())
		case 2:
			addr = netip.AddrPortFrom(testClientAddr.Addr(), testClientAddr.Port()+1)
		}
		dst := append([]byte(nil), rt.retry.srcConnID...)
		switch c.Dst {
		case 1:
			dst[c.TokenPos%len(dst)] ^= 0x10
		case 2:
			dst = append([]byte(nil), rt.originalDstConnID...)
		case 3:
			dst = dst[:len(dst)-1]
		}
		src := append([]byte(nil), rt.originalSrcConnID...)
		if c.Src == 1 {
			src[c.TokenPos%len(src)] ^= 0x01
		}
		time.Sleep(time.Duration(c.AfterS) * time.Second)
		te.writeDatagram(&testDatagram{
			packets: []*testPacket{{
				ptype:     packetTypeInitial,
				num:       1,
				version:   quicVersion1,
				srcConnID: src,
				dstConnID: dst,
				token:     token,
				frames:    []debugFrame{debugFrameCrypto{data: rt.initialCrypto}},
			}},
			paddedSize: 1200,
			addr:       addr,
		})
		synctest.Wait()
		accepted := len(te.acceptQueue) > 0
		unchanged := c.TokenMut == 0 && c.Addr == 0 && c.Dst == 0 && c.Src == 0
		inTime := time.Duration(c.AfterS)*time.Second <= retryTokenValidityPeriod
		var what []string
		if c.TokenMut != 0 {
			what = append(what, []string{"", "a token bit flipped", "a byte appended to the token", "the token's last byte dropped", "the token's first byte dropped", "a token issued for other connection IDs"}[c.TokenMut])
		}
		if c.Addr != 0 {
			what = append(what, []string{"", "another IP address", "another port"}[c.Addr])
		}
		if c.Dst != 0 {
			what = append(what, []string{"", "a destination connection ID bit flipped", "the original destination connection ID", "a shortened destination connection ID"}[c.Dst])
		}
		if c.Src != 0 {
			what = append(what, "a source connection ID bit flipped")
		}
		if !inTime {
			what = append(what, fmt.Sprintf("%d s after it was issued (validity %v)", c.AfterS, retryTokenValidityPeriod))
		}
		switch {
		case accepted && !(unchanged && inTime):
			return fmt.Errorf("the endpoint created a connection for an Initial whose Retry token came with %v", what)
		case !accepted && unchanged && inTime:
			return fmt.Errorf("the endpoint did not create a connection for the unmodified token presented %d s after it was issued from the same address with the same connection IDs", c.AfterS)
		}
		if accepted {
			tc := te.accept()
			if got := tc.sentTransportParameters; got != nil && !bytes.Equal(got.originalDstConnID, rt.originalDstConnID) {
				// the token also carries the original destination connection ID
				return fmt.Errorf("accepted connection announces original_destination_connection_id %x, the first Initial went to %x", got.originalDstConnID, rt.originalDstConnID)
			}
			r.Class("accepted")
		} else {
			r.Class("refused")
			for _, w := range what {
				r.Class("refused: " + w)
			}
			r.NonTrivial()
		}
		return nil
	})
}

func TestVP_C31_endpoint(t *testing.T) {
	vp.Run(t, vp.Spec[c31eCase]{ID: "C31", Sub: "endpoint", Gen: c31eGen, Prop: c31eProp})
}
