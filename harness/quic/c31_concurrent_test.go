package quic

import (
	"fmt"
	"sync"
	"testing"

	"pgregory.net/rapid"
	"verif/vp"
)

// C31 (third check): stateless reset tokens are a deterministic function of
// (key, connection ID) also when one generator is used from several goroutines at
// once, as an Endpoint does (its loop answers unknown packets while Conns issue new
// connection IDs). The oracle is schedule-independent: every token computed
// concurrently must equal the token a private generator with the same key computes
// sequentially.

type c31ConcCase struct {
	Key     []byte `json:"key"`     // 32 bytes
	Workers int    `json:"workers"` // 2..8
	Rounds  int    `json:"rounds"`
	CIDLen  int    `json:"cid_len"`
	// Run is drawn true for 1 case in 40: all tests of a property get the same
	// -rapid.checks, and a case of this one costs about a millisecond.
	Run bool `json:"run"`
}

func c31ConcGen(t *rapid.T) c31ConcCase {
	return c31ConcCase{
		Key:     rapid.SliceOfN(rapid.Byte(), 32, 32).Draw(t, "key"),
		Workers: rapid.IntRange(2, 8).Draw(t, "workers"),
		Rounds:  rapid.IntRange(200, 1500).Draw(t, "rounds"),
		CIDLen:  rapid.IntRange(1, 20).Draw(t, "cidLen"),
		Run:     rapid.IntRange(0, 39).Draw(t, "run") == 0,
	}
}

func c31ConcProp(c c31ConcCase, r *vp.Rec) error {
	if len(c.Key) != 32 || c.Workers < 1 || c.CIDLen < 1 || c.CIDLen > 20 {
		r.Discard("bad-case")
		return nil
	}
	if !c.Run {
		r.Discard("subsampled")
		return nil
	}
	var key [32]byte
	copy(key[:], c.Key)
	var shared, private statelessResetTokenGenerator
	shared.init(key)
	private.init(key)
	cid := func(w, i int) []byte {
		b := make([]byte, c.CIDLen)
		for j := range b {
			b[j] = byte(w*31 + i*7 + j*13 + i>>8)
		}
		return b
	}
	// expected tokens, computed sequentially on the private generator
	want := make([][]statelessResetToken, c.Workers)
	for w := range want {
		want[w] = make([]statelessResetToken, c.Rounds)
		for i := range want[w] {
			want[w][i] = private.tokenForConnID(cid(w, i))
		}
	}
	errs := make([]error, c.Workers)
	var wg sync.WaitGroup
	start := make(chan struct{})
	for w := 0; w < c.Workers; w++ {
		wg.Add(1)
		go func(w int) {
			defer wg.Done()
			<-start
			for i := 0; i < c.Rounds; i++ {
				if got := shared.tokenForConnID(cid(w, i)); got != want[w][i] {
					if errs[w] == nil {
						errs[w] = fmt.Errorf("token for conn ID %x computed while %d goroutines share the generator is %x, the sequential value is %x", cid(w, i), c.Workers, got, want[w][i])
					}
					return
				}
			}
		}(w)
	}
	close(start)
	wg.Wait()
	for _, e := range errs {
		if e != nil {
			return e
		}
	}
	r.Classf("workers-%d", c.Workers)
	r.NonTrivial()
	return nil
}

func TestVP_C31_concurrent(t *testing.T) {
	vp.Run(t, vp.Spec[c31ConcCase]{ID: "C31", Sub: "concurrent", Gen: c31ConcGen, Prop: c31ConcProp})
}
