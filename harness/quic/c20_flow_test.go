package quic

// C20: a QUIC endpoint never sends stream data beyond the peer's flow-control limits;
// limits it advertises never decrease; a peer that exceeds them gets FLOW_CONTROL_ERROR.
//
// One Conn under test, driven through the repository's testConn (scripted,
// decrypting fake peer, synctest fake clock). This file also holds the small shared
// layer for the QUIC "L2" session checks (vpL2*).

import (
	"fmt"
	"testing"
	"time"

	"pgregory.net/rapid"
	"verif/vp"
)

// vpDrain reads every frame the conn has to send right now and passes it to f.
// It stops at the first error.
func vpDrain(tc *testConn, f func(fr debugFrame, pt packetType) error) error {
	for {
		fr, pt := tc.readFrame()
		if fr == nil {
			return nil
		}
		if err := f(fr, pt); err != nil {
			return err
		}
	}
}

// vpAdvance moves fake time to the conn's next timer, if it has one within limit.
func vpAdvance(tc *testConn, limit time.Duration) bool {
	d := tc.timeUntilEvent()
	if d == infiniteDuration || d > limit {
		return false
	}
	time.Sleep(d)
	return true
}

type c20Step struct {
	Kind string `json:"kind"`
	S    int    `json:"s"`
	N    int64  `json:"n"`
}

type c20Case struct {
	Server       bool      `json:"server"`
	MaxData      int64     `json:"max_data"`
	SDBidiLocal  int64     `json:"sd_bidi_local"`  // peer's initial_max_stream_data_bidi_local
	SDBidiRemote int64     `json:"sd_bidi_remote"` // peer's initial_max_stream_data_bidi_remote
	SDUni        int64     `json:"sd_uni"`
	ConnBuf      int64     `json:"conn_buf"`   // our MaxConnReadBufferSize
	StreamBuf    int64     `json:"stream_buf"` // our MaxStreamReadBufferSize
	WriteBuf     int64     `json:"write_buf"`  // our MaxStreamWriteBufferSize
	Steps        []c20Step `json:"steps"`
}

// local stream slots: 0,1 bidi; 2,3 uni. remote stream slots: 0,1 bidi; 2 uni.
const c20Local, c20Remote = 4, 3

func c20Gen(t *rapid.T) c20Case {
	lim := rapid.SampledFrom([]int64{0, 1, 100, 1000, 4096, 20000, 1 << 20})
	c := c20Case{
		Server:       rapid.Bool().Draw(t, "server"),
		MaxData:      rapid.OneOf(lim, rapid.Just(int64(1<<20))).Draw(t, "maxdata"),
		SDBidiLocal:  lim.Draw(t, "sdbl"),
		SDBidiRemote: lim.Draw(t, "sdbr"),
		SDUni:        lim.Draw(t, "sduni"),
		ConnBuf:      rapid.SampledFrom([]int64{64, 1000, 5000, 1 << 20}).Draw(t, "connbuf"),
		StreamBuf:    rapid.SampledFrom([]int64{64, 500, 5000, 1 << 20}).Draw(t, "streambuf"),
		WriteBuf:     rapid.SampledFrom([]int64{100, 4096, 1 << 20}).Draw(t, "writebuf"),
	}
	amount := rapid.OneOf(rapid.Int64Range(0, 3000), rapid.SampledFrom([]int64{0, 1, 99, 100, 101, 1000, 1199, 1200, 4096, 5000, 20000}))
	step := rapid.Custom(func(t *rapid.T) c20Step {
		k := rapid.SampledFrom([]string{"write", "write", "write", "write", "maxdata", "maxdata+", "maxdata+", "maxstreamdata", "maxstreamdata+", "maxstreamdata+", "maxstreamdata+", "ack", "acklatest", "advance", "advance", "peerdata", "peerdata", "read", "closewrite", "ccrace", "peerreset"}).Draw(t, "kind")
		switch rapid.IntRange(0, 119).Draw(t, "over") {
		case 60:
			k = "peerover"
		case 61:
			k = "peerresetover"
		}
		s := c20Step{Kind: k}
		switch k {
		case "write", "closewrite", "maxstreamdata", "maxstreamdata+":
			s.S = rapid.IntRange(0, c20Local+1).Draw(t, "s") // slots 4,5 = send side of remote bidi streams
		case "peerdata", "read", "peerover", "peerreset", "peerresetover":
			s.S = rapid.IntRange(0, c20Remote-1).Draw(t, "s")
		}
		switch k {
		case "write", "peerdata", "peerreset": // peerreset: how far the final size lies beyond what was sent
			s.N = amount.Draw(t, "n")
		case "maxdata", "maxstreamdata":
			s.N = rapid.OneOf(rapid.Int64Range(0, 60000), rapid.SampledFrom([]int64{0, 1, 100, 4096, 20000, 1 << 20, 1 << 30})).Draw(t, "v")
		case "maxdata+", "maxstreamdata+":
			s.N = rapid.SampledFrom([]int64{1, 10, 100, 1000, 1200, 5000, 100000}).Draw(t, "inc")
		case "read":
			s.N = rapid.Int64Range(1, 8000).Draw(t, "n")
		case "peerover", "peerresetover":
			s.N = rapid.Int64Range(1, 3).Draw(t, "n") // 1: stream limit +1, 2: conn limit +1, 3: far beyond
		}
		return s
	})
	c.Steps = rapid.SliceOfN(step, 1, 40).Draw(t, "steps")
	return c
}

func c20Run(t *testing.T, c c20Case, r *vp.Rec) error {
	side := clientSide
	if c.Server {
		side = serverSide
	}
	tc := newTestConn(t, side, func(p *transportParameters) {
		p.initialMaxData = c.MaxData
		p.initialMaxStreamDataBidiLocal = c.SDBidiLocal
		p.initialMaxStreamDataBidiRemote = c.SDBidiRemote
		p.initialMaxStreamDataUni = c.SDUni
		p.initialMaxStreamsBidi = 100
		p.initialMaxStreamsUni = 100
	}, func(cfg *Config) {
		cfg.MaxConnReadBufferSize = c.ConnBuf
		cfg.MaxStreamReadBufferSize = c.StreamBuf
		cfg.MaxStreamWriteBufferSize = c.WriteBuf
	})
	tc.handshake()
	tc.ignoreFrame(frameTypeAck)
	ctx := canceledContext()

	// --- monitor: the peer's view ---
	peerMaxData := c.MaxData
	peerMaxSD := map[streamID]int64{} // largest MAX_STREAM_DATA (or initial) per stream we may send on
	highest := map[streamID]int64{}   // highest offset the conn sent per stream
	var sumHighest int64
	advMaxData := c.ConnBuf          // what the conn advertised to us (non-decreasing)
	advMaxSD := map[streamID]int64{} // per stream the peer sends on
	peerSent := map[streamID]int64{} // highest offset the peer has sent
	peerReset := map[streamID]bool{} // the fake peer has sent RESET_STREAM for the stream
	var peerSentSum int64
	closed := transportError(0)
	gotClose := false
	expectClose := false
	blockedSeen, resumed, retrans, blockedNow := false, false, false, false
	var sentAtBlock int64 = -1
	sentOnce := map[streamID]rangeset[int64]{}

	initialFor := func(id streamID) int64 {
		switch {
		case id.streamType() == uniStream:
			return c.SDUni
		case id.initiator() == side:
			return c.SDBidiRemote // locally initiated: remote from the peer's point of view
		default:
			return c.SDBidiLocal
		}
	}
	limitFor := func(id streamID) int64 {
		if v, ok := peerMaxSD[id]; ok {
			return v
		}
		return initialFor(id)
	}
	onFrame := func(fr debugFrame, pt packetType) error {
		switch f := fr.(type) {
		case debugFrameStream:
			end := f.off + int64(len(f.data))
			if end > limitFor(f.id) {
				return fmt.Errorf("STREAM frame on stream %v reaches offset %d beyond the peer's MAX_STREAM_DATA %d", f.id, end, limitFor(f.id))
			}
			rs := sentOnce[f.id]
			if len(f.data) > 0 && rs.contains(f.off) {
				retrans = true
			}
			rs.add(f.off, end)
			sentOnce[f.id] = rs
			if end > highest[f.id] {
				sumHighest += end - highest[f.id]
				highest[f.id] = end
			}
			if sumHighest > peerMaxData {
				return fmt.Errorf("sum of highest stream offsets sent %d exceeds the peer's MAX_DATA %d (after STREAM id=%v off=%d len=%d)", sumHighest, peerMaxData, f.id, f.off, len(f.data))
			}
		case debugFrameMaxData:
			if f.max < advMaxData {
				return fmt.Errorf("MAX_DATA decreased from %d to %d", advMaxData, f.max)
			}
			advMaxData = f.max
		case debugFrameMaxStreamData:
			if old, ok := advMaxSD[f.id]; ok && f.max < old {
				return fmt.Errorf("MAX_STREAM_DATA for stream %v decreased from %d to %d", f.id, old, f.max)
			}
			if f.max < c.StreamBuf {
				return fmt.Errorf("MAX_STREAM_DATA for stream %v is %d, below the initial limit %d", f.id, f.max, c.StreamBuf)
			}
			advMaxSD[f.id] = f.max
		case debugFrameConnectionCloseTransport:
			gotClose = true
			closed = f.code
		case debugFrameStreamDataBlocked, debugFrameDataBlocked:
			blockedSeen = true
		}
		return nil
	}
	drain := func() error { return vpDrain(tc, onFrame) }
	if err := drain(); err != nil {
		return err
	}

	var local [c20Local]*Stream
	var remote [c20Remote]*Stream
	remoteID := func(i int) streamID {
		if i < 2 {
			return newStreamID(side.peer(), bidiStream, int64(i))
		}
		return newStreamID(side.peer(), uniStream, 0)
	}
	advFor := func(id streamID) int64 {
		if v, ok := advMaxSD[id]; ok {
			return v
		}
		return c.StreamBuf
	}
	sendStream := func(i int) *Stream { // stream to write on for slot i (0..5)
		if i < c20Local {
			if local[i] == nil {
				styp := bidiStream
				if i >= 2 {
					styp = uniStream
				}
				s, err := tc.conn.newLocalStream(ctx, styp)
				if err != nil {
					return nil
				}
				s.SetReadContext(ctx)
				s.SetWriteContext(ctx)
				local[i] = s
			}
			return local[i]
		}
		return remote[i-c20Local] // may be nil if the peer has not opened it yet
	}
	written := map[streamID]int64{}

	for _, st := range c.Steps {
		if gotClose {
			break
		}
		switch st.Kind {
		case "write":
			s := sendStream(st.S)
			if s == nil {
				continue
			}
			b := make([]byte, st.N)
			for i := range b {
				b[i] = byte(written[s.id] + int64(i))
			}
			n, _ := s.Write(b)
			written[s.id] += int64(n)
			s.Flush()
		case "closewrite":
			if s := sendStream(st.S); s != nil {
				s.CloseWrite()
			}
		case "maxdata", "maxdata+":
			if st.Kind == "maxdata+" {
				st.N += peerMaxData
			}
			if st.N > peerMaxData {
				if sumHighest >= peerMaxData && blockedSeen {
					resumed = true
				}
				peerMaxData = st.N
			}
			tc.writeFrames(packetType1RTT, debugFrameMaxData{max: st.N})
		case "maxstreamdata", "maxstreamdata+":
			s := sendStream(st.S)
			if s == nil {
				continue
			}
			if st.Kind == "maxstreamdata+" {
				st.N += limitFor(s.id)
			}
			if st.N > limitFor(s.id) {
				if highest[s.id] >= limitFor(s.id) && written[s.id] > highest[s.id] {
					resumed = true
				}
				peerMaxSD[s.id] = st.N
			}
			tc.writeFrames(packetType1RTT, debugFrameMaxStreamData{id: s.id, max: st.N})
		case "ccrace":
			// Make the conn congestion-limited (a large write that is never
			// acknowledged), then let the application free connection-level receive
			// credit: the MAX_DATA update is scheduled but may be unable to leave. A
			// peer that then exceeds the limit it has actually been given must still
			// get FLOW_CONTROL_ERROR. (If the update does leave, the monitor sees it
			// and the overrun below is simply relative to the new limit.)
			s := sendStream(0)
			if s == nil || peerReset[remoteID(0)] {
				continue
			}
			peerMaxData = max(peerMaxData, 1<<30)
			tc.writeFrames(packetType1RTT, debugFrameMaxData{max: 1 << 30})
			peerMaxSD[s.id] = max(limitFor(s.id), 1<<30)
			tc.writeFrames(packetType1RTT, debugFrameMaxStreamData{id: s.id, max: 1 << 30})
			for k := 0; k < 4; k++ {
				b := make([]byte, 10000)
				for i := range b {
					b[i] = byte(written[s.id] + int64(i))
				}
				n, _ := s.Write(b)
				written[s.id] += int64(n)
				s.Flush()
				if err := drain(); err != nil {
					return err
				}
			}
			r.Class("ccrace")
			id := remoteID(0)
			for k := 0; k < 3 && !gotClose; k++ {
				off := peerSent[id]
				n := min(int64(1100), advFor(id)-off, advMaxData-peerSentSum)
				if n <= 0 {
					break
				}
				tc.writeFrames(packetType1RTT, debugFrameStream{id: id, off: off, data: make([]byte, n)})
				peerSentSum += n
				peerSent[id] = off + n
				if remote[0] == nil {
					if rs, err := tc.conn.AcceptStream(ctx); err == nil {
						rs.SetReadContext(ctx)
						rs.SetWriteContext(ctx)
						for j := 0; j < c20Remote; j++ {
							if remoteID(j) == rs.id {
								remote[j] = rs
							}
						}
					}
				}
				if remote[0] != nil {
					remote[0].Read(make([]byte, 4096))
				}
				if err := drain(); err != nil {
					return err
				}
			}
			if !gotClose {
				// one byte beyond the connection limit the peer has actually been given
				off := peerSent[id] + (advMaxData - peerSentSum)
				if off+1 > advFor(id) {
					// the stream limit would be hit first: that is an overrun too
					off = advFor(id)
				}
				expectClose = true
				r.Class("peer-overrun")
				r.Class("peer-overrun-while-congestion-limited")
				tc.writeFrames(packetType1RTT, debugFrameStream{id: id, off: off, data: make([]byte, 1)})
			}
		case "ack":
			tc.writeAckForAll()
		case "acklatest":
			tc.writeAckForLatest()
		case "advance":
			vpAdvance(tc, 10*time.Second)
		case "peerreset", "peerresetover":
			// RESET_STREAM: its final size counts against both limits like data up to
			// that offset would (RFC 9000 4.5)
			id := remoteID(st.S)
			if peerReset[id] {
				continue
			}
			final := peerSent[id] + st.N
			if st.Kind == "peerreset" {
				final = min(final, advFor(id), peerSent[id]+advMaxData-peerSentSum)
				if final < peerSent[id] {
					continue
				}
				r.Class("peer-reset-within-limits")
				if final > peerSent[id] {
					r.Class("peer-reset-final-size-beyond-data-sent")
				}
			} else {
				switch st.N {
				case 1:
					final = advFor(id) + 1
				case 2:
					final = peerSent[id] + advMaxData - peerSentSum + 1
				default:
					final = advFor(id) + advMaxData + 7
				}
				if final <= peerSent[id] {
					continue
				}
				expectClose = true
				r.Class("peer-overrun-by-reset-final-size")
			}
			peerReset[id] = true
			tc.writeFrames(packetType1RTT, debugFrameResetStream{id: id, code: 1, finalSize: final})
			peerSentSum += final - peerSent[id]
			peerSent[id] = final
			if !expectClose && remote[st.S] == nil {
				if s, err := tc.conn.AcceptStream(ctx); err == nil {
					s.SetReadContext(ctx)
					s.SetWriteContext(ctx)
					for j := 0; j < c20Remote; j++ {
						if remoteID(j) == s.id {
							remote[j] = s
						}
					}
				}
			}
		case "peerdata", "peerover":
			id := remoteID(st.S)
			if peerReset[id] {
				continue
			}
			off := peerSent[id]
			n := st.N
			over := false
			if st.Kind == "peerover" {
				switch st.N {
				case 1:
					n = advFor(id) - off + 1
				case 2:
					n = advMaxData - peerSentSum + 1
				default:
					n = advFor(id) + advMaxData + 7
				}
				if n < 1 {
					n = 1
				}
				// keep the frame small: one byte at the far offset (flow control
				// counts the highest offset, gaps included)
				off = off + n - 1
				n = 1
			}
			if n > 1100 {
				n = 1100
			}
			if st.Kind == "peerdata" {
				// stay within what the conn advertised
				n = min(n, advFor(id)-off, advMaxData-peerSentSum)
				if n < 0 {
					continue
				}
			}
			end := off + n
			newSum := peerSentSum
			if end > peerSent[id] {
				newSum += end - peerSent[id]
			}
			if end > advFor(id) || newSum > advMaxData {
				over = true
			}
			if over {
				expectClose = true
				r.Class("peer-overrun")
			}
			tc.writeFrames(packetType1RTT, debugFrameStream{id: id, off: off, data: make([]byte, n)})
			if end > peerSent[id] {
				peerSentSum += end - peerSent[id]
				peerSent[id] = end
			}
			if !over && remote[st.S] == nil {
				s, err := tc.conn.AcceptStream(ctx)
				if err == nil {
					s.SetReadContext(ctx)
					s.SetWriteContext(ctx)
					// streams are accepted in the order the peer opened them
					for j := 0; j < c20Remote; j++ {
						if remoteID(j) == s.id {
							remote[j] = s
						}
					}
				}
			}
		case "read":
			if s := remote[st.S]; s != nil {
				s.Read(make([]byte, st.N))
			}
		}
		if err := drain(); err != nil {
			return err
		}
		if blockedNow && sentAtBlock >= 0 && sumHighest > sentAtBlock {
			resumed = true
		}
		if blockedNow && sentAtBlock < 0 {
			sentAtBlock = sumHighest
		}
		for id, w := range written {
			if w > highest[id] && (highest[id] >= limitFor(id) || sumHighest >= peerMaxData) {
				blockedNow = true
			}
		}
		if expectClose {
			if !gotClose {
				return fmt.Errorf("peer exceeded an advertised flow-control limit but the connection was not closed (step %+v)", st)
			}
			if closed != errFlowControl {
				return fmt.Errorf("peer exceeded an advertised flow-control limit: CONNECTION_CLOSE code %v, want FLOW_CONTROL_ERROR", closed)
			}
		} else if gotClose {
			return fmt.Errorf("connection closed with %v although the peer stayed within the advertised limits (step %+v)", closed, st)
		}
	}
	if blockedSeen || resumed || blockedNow {
		r.Class("blocked-by-limit")
	}
	if resumed {
		r.Class("resumed-after-MAX")
	}
	if retrans {
		r.Class("retransmission")
	}
	if resumed && retrans {
		r.NonTrivial()
	} else if resumed || expectClose {
		r.NonTrivial()
	}
	return nil
}

func TestVP_C20(t *testing.T) {
	vp.Run(t, vp.Spec[c20Case]{ID: "C20", CrashFile: true, Gen: c20Gen, Prop: func(c c20Case, r *vp.Rec) error {
		return vp.Bubble(func(bt *testing.T) error { return c20Run(bt, c, r) })
	}})
}
