package quic

import (
	"fmt"
	"math"
	"sort"
	"testing"

	"pgregory.net/rapid"
	"verif/vp"
)

// C24: range sets behave exactly like integer sets.

type c24Op struct {
	Sub  bool  `json:"sub"`
	A, B int64 // [A,B), A <= B
}

type c24Case struct {
	Ops []c24Op `json:"ops"`
}

// c24Member is the reference semantics: replay the operations for one point.
func c24Member(ops []c24Op, v int64) bool {
	in := false
	for _, o := range ops {
		if o.A <= v && v < o.B {
			in = !o.Sub
		}
	}
	return in
}

// c24ModelRanges computes the normalised interval list of the model from the
// elementary intervals between all endpoints used so far.
func c24ModelRanges(ops []c24Op) [][2]int64 {
	pts := map[int64]bool{}
	for _, o := range ops {
		pts[o.A] = true
		pts[o.B] = true
	}
	var ps []int64
	for p := range pts {
		ps = append(ps, p)
	}
	sort.Slice(ps, func(i, j int) bool { return ps[i] < ps[j] })
	var out [][2]int64
	for i := 0; i+1 < len(ps); i++ {
		if !c24Member(ops, ps[i]) {
			continue
		}
		if n := len(out); n > 0 && out[n-1][1] == ps[i] {
			out[n-1][1] = ps[i+1]
		} else {
			out = append(out, [2]int64{ps[i], ps[i+1]})
		}
	}
	return out
}

func c24Gen(t *rapid.T) c24Case {
	sparse := rapid.Bool().Draw(t, "sparse")
	var val *rapid.Generator[int64]
	if !sparse {
		val = rapid.Int64Range(0, 64)
	} else {
		anchors := []int64{math.MinInt64, math.MinInt64 + 1, -1 << 40, -100, -1, 0, 1, 100, 1 << 40, 1 << 62, math.MaxInt64 - 1, math.MaxInt64}
		val = rapid.Custom(func(t *rapid.T) int64 {
			a := rapid.SampledFrom(anchors).Draw(t, "anchor")
			d := rapid.Int64Range(-6, 6).Draw(t, "d")
			if (d > 0 && a > math.MaxInt64-d) || (d < 0 && a < math.MinInt64-d) {
				return a
			}
			return a + d
		})
	}
	op := rapid.Custom(func(t *rapid.T) c24Op {
		a := val.Draw(t, "a")
		b := val.Draw(t, "b")
		if a > b {
			a, b = b, a
		}
		return c24Op{Sub: rapid.IntRange(0, 2).Draw(t, "kind") == 0, A: a, B: b}
	})
	return c24Case{Ops: rapid.SliceOfN(op, 1, 60).Draw(t, "ops")}
}

func c24Prop(c c24Case, r *vp.Rec) error {
	var s rangeset[int64]
	for i, o := range c.Ops {
		before := len(s)
		if o.Sub {
			s.sub(o.A, o.B)
		} else {
			s.add(o.A, o.B)
		}
		after := len(s)
		ops := c.Ops[:i+1]
		want := c24ModelRanges(ops)
		// structure: sorted, non-empty, disjoint, non-adjacent
		for j, rg := range s {
			if rg.start >= rg.end {
				return fmt.Errorf("step %d: empty or inverted range %v in %v", i, rg, s)
			}
			if j > 0 && s[j-1].end >= rg.start {
				return fmt.Errorf("step %d: ranges %v and %v overlap, touch or are unsorted in %v", i, s[j-1], rg, s)
			}
		}
		if len(want) != len(s) {
			return fmt.Errorf("step %d: got ranges %v, model %v", i, s, want)
		}
		for j := range want {
			if s[j].start != want[j][0] || s[j].end != want[j][1] {
				return fmt.Errorf("step %d: got ranges %v, model %v", i, s, want)
			}
		}
		// queries
		if s.numRanges() != len(want) {
			return fmt.Errorf("step %d: numRanges %d, model %d", i, s.numRanges(), len(want))
		}
		var wmin, wmax, wend int64
		var wsize uint64
		if len(want) > 0 {
			wmin, wend = want[0][0], want[len(want)-1][1]
			wmax = wend - 1
			for _, w := range want {
				wsize += uint64(w[1]) - uint64(w[0])
			}
		}
		if s.min() != wmin || s.max() != wmax || s.end() != wend {
			return fmt.Errorf("step %d: min/max/end = %d/%d/%d, model %d/%d/%d", i, s.min(), s.max(), s.end(), wmin, wmax, wend)
		}
		if wsize <= math.MaxInt64 && uint64(s.size()) != wsize {
			return fmt.Errorf("step %d: size %d, model %d", i, s.size(), wsize)
		}
		// membership and rangeContaining at every touched endpoint and its neighbours
		probe := func(v int64) error {
			m := c24Member(ops, v)
			if s.contains(v) != m {
				return fmt.Errorf("step %d: contains(%d)=%v, model %v (set %v)", i, v, s.contains(v), m, s)
			}
			rc := s.rangeContaining(v)
			var wr [2]int64
			for _, w := range want {
				if w[0] <= v && v < w[1] {
					wr = w
				}
			}
			if rc.start != wr[0] || rc.end != wr[1] {
				return fmt.Errorf("step %d: rangeContaining(%d)=%v, model %v (set %v)", i, v, rc, wr, s)
			}
			return nil
		}
		for _, p := range ops {
			for _, v := range []int64{p.A, p.B} {
				if err := probe(v); err != nil {
					return err
				}
				if v > math.MinInt64 {
					if err := probe(v - 1); err != nil {
						return err
					}
				}
				if v < math.MaxInt64 {
					if err := probe(v + 1); err != nil {
						return err
					}
				}
			}
		}
		// isrange
		if len(want) == 1 {
			if !s.isrange(want[0][0], want[0][1]) {
				return fmt.Errorf("step %d: isrange(%v) false for single-range set %v", i, want[0], s)
			}
			if s.isrange(want[0][0], want[0][1]+1) && want[0][1] < math.MaxInt64 {
				return fmt.Errorf("step %d: isrange true for wrong end", i)
			}
		}
		if len(want) == 0 && !s.isrange(0, 0) {
			return fmt.Errorf("step %d: isrange(0,0) false on the empty set", i)
		}
		if len(want) > 1 && s.isrange(wmin, wend) {
			return fmt.Errorf("step %d: isrange(%d,%d) true for multi-range set %v", i, wmin, wend, s)
		}
		if s.isrange(o.A, o.B) != (len(want) == 1 && want[0][0] == o.A && want[0][1] == o.B || len(want) == 0 && o.A == 0 && o.B == 0) {
			return fmt.Errorf("step %d: isrange(%d,%d)=%v disagrees with model %v", i, o.A, o.B, s.isrange(o.A, o.B), want)
		}
		if !o.Sub && after < before {
			r.Class("coalesced>=2")
			r.NonTrivial()
		}
		if !o.Sub && after == before && o.A != o.B {
			r.Class("extended-or-absorbed")
		}
		if o.Sub && after > before {
			r.Class("split")
			r.NonTrivial()
		}
		if o.A == o.B {
			r.Class("empty-range-op")
		}
	}
	return nil
}

func TestVP_C24(t *testing.T) {
	vp.Run(t, vp.Spec[c24Case]{ID: "C24", Gen: c24Gen, Prop: c24Prop})
}
