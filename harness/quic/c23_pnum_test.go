package quic

import (
	"fmt"
	"testing"

	"pgregory.net/rapid"
	"verif/vp"
)

// C23: QUIC packet numbers decode to the number that was sent (RFC 9000 17.1, A.2, A.3).
//
// Two modes:
//   sender:   pn, largest acked A (= pn-D, A >= -1), receiver's largest received
//             L = A+LOff in [A, pn).  The length is the one packetNumberLength picks.
//   explicit: pn, an explicit length N in 1..4 and a receiver whose next expected
//             number L+1 is pn-E with |E| < 2^(8N-1) (strictly inside half the window).

const c23MaxPN = int64(1)<<62 - 1

type c23Case struct {
	Mode string `json:"mode"` // sender | explicit
	PN   int64  `json:"pn"`
	D    int64  `json:"d"`    // sender: pn - A, >= 1
	LOff int64  `json:"loff"` // sender: L = A + LOff, 0 <= LOff < D
	N    int    `json:"n"`    // explicit: length in bytes
	E    int64  `json:"e"`    // explicit: pn - (L+1)
}

var c23Thresholds = []int64{0x80, 0x8000, 0x800000, 0x80000000}

// c23RefLen is the smallest n in 1..4 with d < 2^(8n-1), i.e. RFC 9000 17.1: the
// encoding must be able to represent more than twice the distance to the largest
// acknowledged packet. ok=false when no 4-byte encoding can (d >= 2^31).
func c23RefLen(d int64) (n int, ok bool) {
	for n = 1; n <= 4; n++ {
		if d < int64(1)<<(8*n-1) {
			return n, true
		}
	}
	return 4, false
}

// c23RefDecode: the value congruent to truncated modulo 2^(8n) that is closest to
// expected, found by brute force over the three candidate windows. It reports
// unique=false on a tie or when the closest value lies outside [0, 2^62).
func c23RefDecode(largest, truncated int64, n int) (pn int64, unique bool) {
	expected := largest + 1
	win := int64(1) << (8 * n)
	base := expected - (expected & (win - 1)) // expected >= 0
	best, bestDist, ties := int64(-1), int64(-1), 0
	for k := int64(-1); k <= 1; k++ {
		c := base + k*win + truncated
		dist := c - expected
		if dist < 0 {
			dist = -dist
		}
		if bestDist < 0 || dist < bestDist {
			best, bestDist, ties = c, dist, 1
		} else if dist == bestDist {
			ties++
		}
	}
	if ties != 1 || best < 0 || best > c23MaxPN {
		return best, false
	}
	return best, true
}

func c23NearThreshold(d int64) bool {
	for _, th := range c23Thresholds {
		if d >= th-2 && d <= th+2 {
			return true
		}
	}
	return false
}

func c23CheckSender(pn, d, loff int64, r *vp.Rec) error {
	a := pn - d // largest acked, -1 = nothing acked yet
	l := a + loff
	wantN, ok := c23RefLen(d)
	if !ok {
		r.Discard("pn - largestAcked >= 2^31: not representable by any 4-byte encoding (RFC 9000 17.1)")
		return nil
	}
	n := packetNumberLength(packetNumber(pn), packetNumber(a))
	if n < 1 || n > 4 {
		return fmt.Errorf("packetNumberLength(%d,%d)=%d, not in 1..4", pn, a, n)
	}
	hwin := int64(1) << (8*n - 1)
	if !(d < hwin) {
		return fmt.Errorf("packetNumberLength(pn=%d, acked=%d)=%d leaves pn-acked=%d >= half window %d", pn, a, n, d, hwin)
	}
	if n != wantN {
		// allowed by the statement (only "below half the window" is demanded); counted
		r.Class("sender-length-not-minimal")
	}
	prefix := []byte{0xee, 0x11}
	enc := appendPacketNumber(append([]byte{}, prefix...), packetNumber(pn), packetNumber(a))
	if len(enc) != len(prefix)+n || enc[0] != prefix[0] || enc[1] != prefix[1] {
		return fmt.Errorf("appendPacketNumber(pn=%d, acked=%d) appended %d bytes (% x), packetNumberLength says %d", pn, a, len(enc)-len(prefix), enc, n)
	}
	var truncated int64
	for _, b := range enc[len(prefix):] {
		truncated = truncated<<8 | int64(b)
	}
	win := int64(1) << (8 * n)
	if truncated != pn%win {
		return fmt.Errorf("appendPacketNumber(pn=%d, acked=%d) wrote % x, want the low %d bytes of pn big-endian (%#x)", pn, a, enc[len(prefix):], n, pn%win)
	}
	got := int64(decodePacketNumber(packetNumber(l), packetNumber(truncated), n))
	if got != pn {
		return fmt.Errorf("sent pn=%d with largest acked %d in %d bytes (truncated %#x); receiver with largest received %d decodes %d", pn, a, n, truncated, l, got)
	}
	if ref, uniq := c23RefDecode(l, truncated, n); !uniq || ref != pn {
		return fmt.Errorf("harness self-check: reference decoder gives %d (unique=%v) for pn=%d l=%d n=%d", ref, uniq, pn, l, n)
	}
	r.Classf("sender-len-%d", n)
	if a == -1 {
		r.Class("sender-nothing-acked")
	}
	switch {
	case loff == 0:
		r.Class("sender-L=A")
	case loff == d-1:
		r.Class("sender-L=pn-1")
	default:
		r.Class("sender-L-between")
	}
	if c23NearThreshold(d) {
		r.Class("sender-d-near-threshold")
		r.NonTrivial()
	}
	if pn > c23MaxPN-(1<<32) {
		r.Class("pn-near-2^62")
		r.NonTrivial()
	}
	if pn/win != (l+1)/win {
		r.Class("sender-window-wrap") // pn and expected differ above the truncated bits
		r.NonTrivial()
	}
	return nil
}

func c23CheckExplicit(pn int64, n int, e int64, r *vp.Rec) error {
	hwin := int64(1) << (8*n - 1)
	win := hwin * 2
	expected := pn - e
	l := expected - 1
	if e <= -hwin || e >= hwin || l < -1 || l > c23MaxPN {
		r.Discard("receiver state outside the property's domain")
		return nil
	}
	truncated := pn % win
	got := int64(decodePacketNumber(packetNumber(l), packetNumber(truncated), n))
	if got != pn {
		return fmt.Errorf("pn=%d truncated to %d bytes (%#x); receiver with largest received %d (pn-expected=%d, half window %d) decodes %d", pn, n, truncated, l, e, hwin, got)
	}
	if ref, uniq := c23RefDecode(l, truncated, n); !uniq || ref != pn {
		return fmt.Errorf("harness self-check: reference decoder gives %d (unique=%v) for pn=%d l=%d n=%d", ref, uniq, pn, l, n)
	}
	r.Classf("explicit-len-%d", n)
	switch {
	case e < 0:
		r.Class("explicit-pn-below-expected(reordered)")
	case e == 0:
		r.Class("explicit-pn=expected")
	default:
		r.Class("explicit-pn-above-expected")
	}
	if e <= -hwin+3 || e >= hwin-3 {
		r.Class("explicit-at-half-window-edge")
		r.NonTrivial()
	}
	if pn > c23MaxPN-(1<<32) {
		r.Class("pn-near-2^62")
		r.NonTrivial()
	}
	if pn/win != expected/win {
		r.Class("explicit-window-wrap")
		r.NonTrivial()
	}
	if pn < win {
		r.Class("explicit-pn-in-first-window")
	}
	return nil
}

func c23Prop(c c23Case, r *vp.Rec) error {
	if c.PN < 0 || c.PN > c23MaxPN {
		r.Discard("pn outside [0, 2^62)")
		return nil
	}
	switch c.Mode {
	case "sender":
		if c.D < 1 || c.PN-c.D < -1 || c.LOff < 0 || c.LOff >= c.D {
			r.Discard("need -1 <= A < pn and A <= L < pn")
			return nil
		}
		return c23CheckSender(c.PN, c.D, c.LOff, r)
	case "explicit":
		if c.N < 1 || c.N > 4 {
			r.Discard("length outside 1..4")
			return nil
		}
		return c23CheckExplicit(c.PN, c.N, c.E, r)
	}
	r.Discard("unknown mode")
	return nil
}

func c23PNGen() *rapid.Generator[int64] {
	return rapid.Custom(func(t *rapid.T) int64 {
		switch rapid.IntRange(0, 4).Draw(t, "pnhow") {
		case 0:
			return rapid.Int64Range(0, 70000).Draw(t, "small")
		case 1:
			k := rapid.IntRange(1, 7).Draw(t, "k")
			v := int64(1)<<(8*k) + rapid.Int64Range(-300, 300).Draw(t, "off")
			if v > c23MaxPN {
				v = c23MaxPN
			}
			if v < 0 {
				v = 0
			}
			return v
		case 2:
			return c23MaxPN - rapid.Int64Range(0, 1<<33).Draw(t, "fromTop")
		case 3:
			// multiple of a window size +- a little
			k := rapid.IntRange(1, 4).Draw(t, "wk")
			m := rapid.Int64Range(0, (c23MaxPN>>(8*k))-1).Draw(t, "mult")
			v := m<<(8*k) + rapid.Int64Range(-3, 3).Draw(t, "off")
			if v < 0 {
				v = 0
			}
			return v
		default:
			return rapid.Int64Range(0, c23MaxPN).Draw(t, "uniform")
		}
	})
}

func c23Gen(t *rapid.T) c23Case {
	c := c23Case{PN: c23PNGen().Draw(t, "pn")}
	if rapid.IntRange(0, 2).Draw(t, "mode") < 2 {
		c.Mode = "sender"
		// d in [1, 2^31) biased to the thresholds; a few beyond (excluded, counted)
		var d int64
		switch rapid.IntRange(0, 9).Draw(t, "dhow") {
		case 0, 1, 2, 3:
			th := rapid.SampledFrom(c23Thresholds).Draw(t, "th")
			d = th + rapid.Int64Range(-3, 3).Draw(t, "dd")
		case 4, 5:
			k := rapid.IntRange(0, 3).Draw(t, "dclass")
			lo := int64(1)
			if k > 0 {
				lo = c23Thresholds[k-1]
			}
			d = rapid.Int64Range(lo, c23Thresholds[k]-1).Draw(t, "dv")
		case 6, 7:
			d = rapid.Int64Range(1, 300).Draw(t, "dsmall")
		case 8:
			d = rapid.Int64Range(1, 1<<31-1).Draw(t, "duni")
		default:
			d = rapid.Int64Range(1<<31, 1<<40).Draw(t, "dhuge")
		}
		if rapid.IntRange(0, 7).Draw(t, "nothingAcked") == 0 {
			d = c.PN + 1 // A = -1
		}
		if d > c.PN+1 {
			d = rapid.Int64Range(1, c.PN+1).Draw(t, "dclamped")
		}
		c.D = d
		switch rapid.IntRange(0, 3).Draw(t, "lhow") {
		case 0:
			c.LOff = 0
		case 1:
			c.LOff = d - 1
		case 2:
			c.LOff = rapid.Int64Range(0, d-1).Draw(t, "loff")
		default:
			x := rapid.Int64Range(0, 3).Draw(t, "lnear")
			if rapid.Bool().Draw(t, "fromTop") {
				x = d - 1 - x
			}
			if x < 0 {
				x = 0
			}
			if x > d-1 {
				x = d - 1
			}
			c.LOff = x
		}
		return c
	}
	c.Mode = "explicit"
	c.N = rapid.IntRange(1, 4).Draw(t, "n")
	hwin := int64(1) << (8*c.N - 1)
	var e int64
	switch rapid.IntRange(0, 3).Draw(t, "ehow") {
	case 0:
		e = hwin - 1 - rapid.Int64Range(0, 3).Draw(t, "x")
	case 1:
		e = -(hwin - 1) + rapid.Int64Range(0, 3).Draw(t, "x")
	case 2:
		e = rapid.Int64Range(-3, 3).Draw(t, "x")
	default:
		e = rapid.Int64Range(-(hwin-1), hwin-1).Draw(t, "x")
	}
	// keep the receiver's largest received number inside [-1, 2^62-1]
	if c.PN-e-1 < -1 {
		e = c.PN
	}
	if c.PN-e-1 > c23MaxPN {
		e = c.PN - 1 - c23MaxPN
	}
	c.E = e
	return c
}

func TestVP_C23(t *testing.T) {
	vp.Run(t, vp.Spec[c23Case]{ID: "C23", Gen: c23Gen, Prop: c23Prop})
}

// TestVP_C23_grid: complete grid of
//
//	sender:   pn anchors x d in (1..6, every length threshold +-6, 2^31-6..2^31-1,
//	          "nothing acked") x L in {A, A+1, A+2, middle, pn-3, pn-2, pn-1}
//	explicit: pn anchors x n in 1..4 x e in {+-(hwin-1..hwin-4), -3..3, +-hwin/2}
func TestVP_C23_grid(t *testing.T) {
	vp.RunEnum(t, "C23", "grid", false, func(e *vp.Enum) {
		var anchors []int64
		add := func(v int64) {
			if v >= 0 && v <= c23MaxPN {
				anchors = append(anchors, v)
			}
		}
		for v := int64(0); v < 600; v++ {
			add(v)
		}
		for k := 1; k <= 7; k++ {
			for o := int64(-260); o <= 260; o++ {
				add(int64(1)<<(8*k) + o)
				add(int64(1)<<(8*k-1) + o)
			}
		}
		for o := int64(0); o < 600; o++ {
			add(c23MaxPN - o)
			add(c23MaxPN - (1 << 31) + o - 300)
			add(c23MaxPN - (1 << 32) + o - 300)
		}
		add(0x0123456789abcdef & c23MaxPN)
		add(0xa82f30ea)
		add(0xa82f9b32)
		{
			seen := map[int64]bool{}
			uniq := anchors[:0]
			for _, v := range anchors {
				if !seen[v] {
					seen[v] = true
					uniq = append(uniq, v)
				}
			}
			anchors = uniq
		}

		var ds []int64
		for d := int64(1); d <= 6; d++ {
			ds = append(ds, d)
		}
		for _, th := range c23Thresholds {
			for o := int64(-6); o <= 6; o++ {
				if th+o < 1<<31 {
					ds = append(ds, th+o)
				}
			}
		}
		safe := func(f func(r *vp.Rec) error) (rec *vp.Rec, err error) {
			rec = &vp.Rec{}
			defer func() {
				if p := recover(); p != nil {
					err = fmt.Errorf("panic: %v", p)
				}
			}()
			return rec, f(rec)
		}
		for _, pn := range anchors {
			dl := append([]int64{pn + 1}, ds...) // pn+1: nothing acked
			for _, d := range dl {
				if d > pn+1 || d >= 1<<31 {
					continue
				}
				seen := map[int64]bool{}
				for _, loff := range []int64{0, 1, 2, d / 2, d - 3, d - 2, d - 1} {
					if loff < 0 || loff >= d || seen[loff] {
						continue
					}
					seen[loff] = true
					c := c23Case{Mode: "sender", PN: pn, D: d, LOff: loff}
					rec, err := safe(func(r *vp.Rec) error { return c23CheckSender(pn, d, loff, r) })
					if err != nil {
						e.Fail(c, err)
						return
					}
					n, _ := c23RefLen(d)
					_ = rec
					e.Eval(c23NearThreshold(d) || pn > c23MaxPN-(1<<32), fmt.Sprintf("grid-sender-len-%d", n), func() any { return c })
				}
			}
			for n := 1; n <= 4; n++ {
				hwin := int64(1) << (8*n - 1)
				es := []int64{-3, -2, -1, 0, 1, 2, 3, hwin / 2, -hwin / 2}
				for o := int64(1); o <= 4; o++ {
					es = append(es, hwin-o, -(hwin - o))
				}
				seen := map[int64]bool{}
				for _, ev := range es {
					l := pn - ev - 1
					if seen[ev] || ev <= -hwin || ev >= hwin || l < -1 || l > c23MaxPN {
						continue
					}
					seen[ev] = true
					c := c23Case{Mode: "explicit", PN: pn, N: n, E: ev}
					_, err := safe(func(r *vp.Rec) error { return c23CheckExplicit(pn, n, ev, r) })
					if err != nil {
						e.Fail(c, err)
						return
					}
					e.Eval(ev <= -hwin+3 || ev >= hwin-3 || pn > c23MaxPN-(1<<32), fmt.Sprintf("grid-explicit-len-%d", n), func() any { return c })
				}
			}
		}
		e.Note(fmt.Sprintf("%d pn anchors x %d distances x up to 7 receiver states (sender mode) and x 4 lengths x up to 17 offsets (explicit mode): all checked", len(anchors), len(ds)+1))
	})
}
