package quic

// C25 (part 2, "conn"): one quic.Conn after the handshake, driven through the
// repository's testConn. The fake peer sends 1-RTT packets with drawn packet numbers
// (reordered, with gaps, duplicated byte-identically, duplicated with the same number
// but different frames). Every packet carries a PATH_CHALLENGE with data unique to that
// packet *instance*; the conn answers a processed PATH_CHALLENGE with a PATH_RESPONSE
// echoing the data (never retransmitted), which makes "processed" visible on the wire.
//
// Monitor (the peer's view):
//   - every range of every ACK frame the conn sends ⊆ numbers the peer sent in that space;
//   - per packet number at most one instance is ever answered, and an instance sent after
//     the number was already acknowledged or answered is never answered;
//   - an ACK frame from the peer that names a packet number the conn never sent (beyond
//     the largest sent, or a number the conn skipped) is answered by
//     CONNECTION_CLOSE(PROTOCOL_VIOLATION).

import (
	"context"
	"encoding/binary"
	"fmt"
	"math/rand/v2"
	"sort"
	"testing"
	"time"

	"pgregory.net/rapid"
	"verif/vp"
)

type c25Step struct {
	Kind string `json:"kind"`           // pkt | ack | advance
	N    int64  `json:"n"`              // pkt: packet number; ack: mode
	Same bool   `json:"same,omitempty"` // pkt: resend the first instance of this number byte-identically
	Ping bool   `json:"ping,omitempty"` // pkt: PING before the PATH_CHALLENGE (different frames)
	Pad  bool   `json:"pad,omitempty"`  // pkt: datagram padded to 1200 bytes
}

// c25Bad is the final step of a script: an ACK frame from the peer that names a
// packet number the conn never sent.
type c25Bad struct {
	// next: largest sent + 1; far: largest sent + 1001; skipped: a number the conn
	// skipped and still tracks (falls back to largest sent + 2 if there is none);
	// skipped-forgotten: a skipped number below the oldest packet the conn still
	// tracks (same fallback).
	Mode string `json:"mode"`
	Pick int    `json:"pick"` // which of the candidate skipped numbers
	Wide bool   `json:"wide"` // one range from 0 up to the bad number instead of the bad number alone
}

type c25ConnCase struct {
	Server bool      `json:"server"`
	Skip   int64     `json:"skip"` // the conn skips the packet number this far ahead of its next one
	Steps  []c25Step `json:"steps"`
	Bad    *c25Bad   `json:"bad,omitempty"`
}

func c25ConnGen(t *rapid.T) c25ConnCase {
	c := c25ConnCase{
		Server: rapid.Bool().Draw(t, "server"),
		Skip:   rapid.Int64Range(1, 30).Draw(t, "skip"),
	}
	// Packet numbers follow a moving front (the handshake used 0 and 1): the next
	// number, small gaps, late/duplicate arrivals behind the front, exact repeats of
	// numbers sent before (also 0 and 1), rare jumps. All stay below 2^31.
	cur := int64(1)
	drawn := []int64{0, 1}
	num := rapid.Custom(func(t *rapid.T) int64 {
		var n int64
		switch k := rapid.IntRange(0, 19).Draw(t, "nk"); {
		case k < 5:
			n = cur + 1
		case k < 9:
			n = cur + rapid.Int64Range(2, 4).Draw(t, "gap")
		case k < 12:
			n = cur - rapid.Int64Range(0, 24).Draw(t, "back")
		case k < 18:
			n = drawn[rapid.IntRange(0, len(drawn)-1).Draw(t, "again")]
		case k < 19:
			n = rapid.Int64Range(0, cur).Draw(t, "any")
		default:
			n = cur + rapid.SampledFrom([]int64{100, 70000, 1 << 24}).Draw(t, "jump")
		}
		n = min(max(n, 0), 1<<30)
		cur = max(cur, n)
		drawn = append(drawn, n)
		return n
	})
	step := rapid.Custom(func(t *rapid.T) c25Step {
		k := rapid.IntRange(0, 99).Draw(t, "k")
		switch {
		case k < 72:
			return c25Step{Kind: "pkt", N: num.Draw(t, "n"), Same: rapid.Bool().Draw(t, "same"),
				Ping: rapid.Bool().Draw(t, "ping"), Pad: rapid.IntRange(0, 7).Draw(t, "pad") == 0}
		case k < 90:
			return c25Step{Kind: "ack", N: rapid.Int64Range(0, 3).Draw(t, "mode")}
		default:
			return c25Step{Kind: "advance"}
		}
	})
	// rapid's slices are short on average; ask for long scripts explicitly.
	minLen := rapid.SampledFrom([]int{1, 1, 12, 25, 40}).Draw(t, "minlen")
	c.Steps = rapid.SliceOfN(step, minLen, 70).Draw(t, "steps")
	if m := rapid.SampledFrom([]string{"", "", "", "next", "far", "skipped", "skipped", "skipped", "skipped-forgotten", "skipped-forgotten"}).Draw(t, "bad"); m != "" {
		c.Bad = &c25Bad{Mode: m, Pick: rapid.IntRange(0, 3).Draw(t, "pick"), Wide: rapid.Bool().Draw(t, "wide")}
	}
	return c
}

// c25Encode builds a 1-RTT datagram from the peer. The packet number is always
// encoded in four bytes, so that (all numbers being < 2^31) the receiver decodes
// exactly num whatever it has seen before.
func c25Encode(tc *testConn, num packetNumber, pad int, frames ...debugFrame) []byte {
	dst := tc.conn.connIDState.local[0].cid
	if tc.conn.connIDState.local[0].seq == -1 {
		dst = tc.conn.connIDState.local[1].cid
	}
	maxAcked := num - 1<<23
	var w packetWriter
	w.reset(1200)
	w.start1RTTPacket(num, maxAcked, dst)
	for _, f := range frames {
		f.write(&w)
	}
	w.appendPaddingTo(pad)
	k := &updatingKeyPair{
		w: updatingKeys{
			hdr: tc.wkeyAppData.hdr,
			pkt: [2]packetKey{tc.wkeyAppData.pkt[0], tc.wkeyAppData.pkt[0]},
		},
		updateAfter: maxPacketNumber,
	}
	w.finish1RTTPacket(num, maxAcked, dst, k)
	return append([]byte(nil), w.datagram()...)
}

func c25Ranges(nums []int64) []i64range[packetNumber] {
	s := append([]int64(nil), nums...)
	sort.Slice(s, func(i, j int) bool { return s[i] < s[j] })
	var out []i64range[packetNumber]
	for _, n := range s {
		if l := len(out); l > 0 && out[l-1].end == packetNumber(n) {
			out[l-1].end++
		} else if l == 0 || out[l-1].end < packetNumber(n) {
			out = append(out, i64range[packetNumber]{packetNumber(n), packetNumber(n) + 1})
		}
	}
	return out
}

type c25Inst struct {
	num  int64
	inst int // index of the instance among the datagrams sent with this number
}

func c25ConnRun(t *testing.T, c c25ConnCase, r *vp.Rec) error {
	side := clientSide
	if c.Server {
		side = serverSide
	}
	tc := newTestConn(t, side)
	tc.handshake()
	ctx := context.Background()

	// Make the conn's packet-number skipping deterministic and early.
	var skipAt packetNumber
	tc.conn.runOnLoop(ctx, func(now time.Time, cc *Conn) {
		cc.prng = rand.New(rand.NewPCG(25, uint64(c.Skip)))
		skipAt = cc.loss.nextNumber(appDataSpace) + packetNumber(c.Skip)
		cc.skip.skip = skipAt
	})
	seenNow := func() (s rangeset[packetNumber]) {
		tc.conn.runOnLoop(ctx, func(now time.Time, cc *Conn) {
			s = append(s, cc.acks[appDataSpace].seen...)
		})
		return s
	}

	// --- the peer's view ---
	var peerSent [numberSpaceCount]map[int64]bool // numbers the peer has sent, per space
	for sp := range peerSent {
		peerSent[sp] = map[int64]bool{}
		for n := packetNumber(0); n < tc.peerNextPacketNum[sp]; n++ {
			peerSent[sp][int64(n)] = true
		}
	}
	peerMax := int64(tc.peerNextPacketNum[appDataSpace]) - 1
	connSent := map[int64]bool{} // 1-RTT numbers received from the conn
	var connSentList []int64
	connMax := int64(tc.pnumMax[appDataSpace])
	for n := int64(0); n <= connMax; n++ {
		connSent[n] = true
		connSentList = append(connSentList, n)
	}
	first := map[int64][]byte{}        // first datagram sent with a number
	insts := map[int64]int{}           // instances sent per number
	byData := map[uint64]c25Inst{}     // PATH_CHALLENGE data -> packet instance
	evidence := map[int64]bool{}       // number was acknowledged or answered
	evidAtSend := map[c25Inst]bool{}   // ... already when this instance was sent
	answered := map[int64]int{}        // PATH_RESPONSEs seen per number
	answeredInst := map[c25Inst]bool{} // instance answered
	for _, rg := range seenNow() {
		// handshake packets: processed during the handshake (nothing has been
		// discarded from the conn's record yet)
		for n := rg.start; n < rg.end; n++ {
			evidence[int64(n)] = true
		}
	}
	alive := func() bool {
		ok := false
		err := tc.conn.runOnLoop(ctx, func(now time.Time, cc *Conn) { ok = cc.lifetime.state == connStateAlive })
		return err == nil && ok
	}
	gotClose, closeCode := false, transportError(0)
	var gaps []int64

	drain := func() error {
		for {
			d := tc.readDatagram()
			if d == nil {
				return nil
			}
			for _, p := range d.packets {
				if p.ptype == packetTypeRetry {
					continue
				}
				sp := spaceForPacketType(p.ptype)
				if sp == appDataSpace && !connSent[int64(p.num)] {
					connSent[int64(p.num)] = true
					connSentList = append(connSentList, int64(p.num))
					if int64(p.num) > connMax {
						for g := connMax + 1; g < int64(p.num); g++ {
							gaps = append(gaps, g)
						}
						connMax = int64(p.num)
					}
				}
				for _, fr := range p.frames {
					switch f := fr.(type) {
					case debugFrameAck:
						if err := c25Subset(f.ranges, peerSent[sp], fmt.Sprintf("ACK frame %v in %v packet %d", f, p.ptype, p.num)); err != nil {
							return err
						}
						if sp == appDataSpace {
							for _, rg := range f.ranges {
								for n := rg.start; n < rg.end; n++ {
									evidence[int64(n)] = true
								}
							}
						}
					case debugFramePathResponse:
						in, ok := byData[binary.BigEndian.Uint64(f.data[:])]
						if !ok {
							continue // cannot be attributed to a packet
						}
						answered[in.num]++
						if answered[in.num] > 1 {
							return fmt.Errorf("packet number %d was processed twice: %d PATH_RESPONSE frames for PATH_CHALLENGEs sent in packets numbered %d (%d instances sent)", in.num, answered[in.num], in.num, insts[in.num])
						}
						if evidAtSend[in] {
							return fmt.Errorf("packet number %d was processed twice: instance %d was sent after the conn had already acknowledged or answered number %d, and its PATH_CHALLENGE %x was answered", in.num, in.inst, in.num, f.data)
						}
						answeredInst[in] = true
						evidence[in.num] = true
					case debugFrameConnectionCloseTransport:
						gotClose, closeCode = true, f.code
					case debugFrameConnectionCloseApplication:
						gotClose, closeCode = true, transportError(0xffff)
					}
				}
			}
		}
	}
	send := func(b []byte) {
		tc.endpoint.write(&datagram{b: b, peerAddr: tc.conn.peerAddr})
	}
	if err := drain(); err != nil {
		return err
	}
	sendAck := func(ranges []i64range[packetNumber]) {
		peerMax++
		peerSent[appDataSpace][peerMax] = true
		insts[peerMax]++
		send(c25Encode(tc, packetNumber(peerMax), 0, debugFrameAck{ranges: ranges}))
	}

	nontrivial := false
	for si, st := range c.Steps {
		if !alive() {
			r.Class("idle-timeout")
			break
		}
		switch st.Kind {
		case "pkt":
			n := st.N
			var b []byte
			in := c25Inst{num: n, inst: insts[n]}
			if st.Same && first[n] != nil {
				b = first[n]
				in.inst = 0 // same data as the first instance
				r.Class("dup-identical")
			} else {
				var data pathChallengeData
				binary.BigEndian.PutUint64(data[:], uint64(si)+1)
				byData[uint64(si)+1] = in
				frames := []debugFrame{debugFramePathChallenge{data: data}}
				if st.Ping {
					frames = []debugFrame{debugFramePing{}, frames[0]}
				}
				pad := 0
				if st.Pad {
					pad = 1200
				}
				b = c25Encode(tc, packetNumber(n), pad, frames...)
				if insts[n] > 0 || n <= 1 {
					r.Class("dup-different-frames")
				}
				if first[n] == nil {
					first[n] = b
				}
				evidAtSend[in] = evidence[n]
			}
			if insts[n] > 0 || n <= 1 {
				// a duplicate: is its number still remembered by the conn?
				if evidence[n] && !seenNow().contains(packetNumber(n)) {
					r.Class("dup-of-forgotten-number")
					nontrivial = true
				}
			}
			insts[n]++
			peerSent[appDataSpace][n] = true
			if n > peerMax {
				peerMax = n
			}
			before := seenNow()
			send(b)
			if after := seenNow(); len(before) == 8 && len(after) == 8 && after.min() > before.min() {
				r.Class("oldest-range-discarded-by-cap")
			}
		case "ack":
			var ranges []i64range[packetNumber]
			switch st.N {
			case 0, 1: // everything received from the conn
				ranges = c25Ranges(connSentList)
			case 2: // the most recent packet only
				ranges = c25Ranges(connSentList[len(connSentList)-1:])
			default: // the older half
				ranges = c25Ranges(connSentList[:(len(connSentList)+1)/2])
			}
			sendAck(ranges)
		case "advance":
			vpAdvance(tc, time.Second)
		}
		if err := drain(); err != nil {
			return err
		}
		if gotClose {
			// Not demanded or forbidden by the statement; a harness-model problem
			// would show up here, so it is counted, not hidden.
			r.Class("unexpected-close")
			r.Discard(fmt.Sprintf("connection closed with %v at step %d (%+v)", closeCode, si, st))
			return nil
		}
	}
	if len(c.Steps) >= 30 {
		r.Class("steps>=30")
	}
	if c.Bad != nil && alive() {
		// Skipped numbers seen as gaps, split by whether the conn still tracks them.
		var oldest packetNumber
		var tracked, forgotten []int64
		split := func() {
			tc.conn.runOnLoop(ctx, func(now time.Time, cc *Conn) { oldest = cc.loss.spaces[appDataSpace].start() })
			tracked, forgotten = nil, nil
			for _, g := range gaps {
				if packetNumber(g) >= oldest {
					tracked = append(tracked, g)
				} else {
					forgotten = append(forgotten, g)
				}
			}
		}
		split()
		if c.Bad.Mode == "skipped" && len(tracked) == 0 {
			// Let the conn skip its next-but-one number and make it send a few packets.
			tc.conn.runOnLoop(ctx, func(now time.Time, cc *Conn) {
				cc.skip.skip = cc.loss.nextNumber(appDataSpace) + 1
			})
			for i := 0; i < 3; i++ {
				var data pathChallengeData
				binary.BigEndian.PutUint64(data[:], uint64(len(c.Steps)+i)+1)
				peerMax++
				byData[uint64(len(c.Steps)+i)+1] = c25Inst{num: peerMax}
				peerSent[appDataSpace][peerMax] = true
				insts[peerMax]++
				send(c25Encode(tc, packetNumber(peerMax), 0, debugFramePathChallenge{data: data}))
				if err := drain(); err != nil {
					return err
				}
			}
			if gotClose {
				r.Class("unexpected-close")
				r.Discard("connection closed while provoking a skipped number")
				return nil
			}
			split()
		}
		bad := connMax + 2
		class := "badack-beyond(fallback)"
		switch {
		case c.Bad.Mode == "next":
			bad, class = connMax+1, "badack-next-unsent"
		case c.Bad.Mode == "far":
			bad, class = connMax+1001, "badack-far-beyond"
		case c.Bad.Mode == "skipped" && len(tracked) > 0:
			bad, class = tracked[c.Bad.Pick%len(tracked)], "badack-skipped-number"
		case c.Bad.Mode == "skipped-forgotten" && len(forgotten) > 0:
			bad, class = forgotten[c.Bad.Pick%len(forgotten)], "badack-skipped-number-no-longer-tracked"
		}
		r.Class(class)
		ranges := []i64range[packetNumber]{{packetNumber(bad), packetNumber(bad) + 1}}
		if c.Bad.Wide {
			ranges[0].start = 0
		}
		sendAck(ranges)
		if err := drain(); err != nil {
			return err
		}
		if !gotClose {
			return fmt.Errorf("the peer acknowledged packet number %d in ACK %v, which the conn never sent (received from the conn: %v; oldest packet it tracks: %d), and the connection was not closed", bad, ranges, c25Ranges(connSentList), oldest)
		}
		if closeCode != errProtocolViolation {
			return fmt.Errorf("the peer acknowledged never-sent packet number %d: CONNECTION_CLOSE code %v, want PROTOCOL_VIOLATION", bad, closeCode)
		}
		nontrivial = true
	}
	if len(gaps) > 0 {
		r.Class("conn-skipped-a-number")
	}
	if nontrivial {
		r.NonTrivial()
	}
	return nil
}

// c25ConnKnown: an ACK naming a skipped packet number is not detected once the conn
// has dropped its record of that number (sentPacketList.clean removes the "unsent"
// marker as soon as everything older is acknowledged or lost).
func c25ConnKnown(c c25ConnCase) string {
	if c.Bad != nil && c.Bad.Mode == "skipped-forgotten" {
		return "c25-ack-of-forgotten-skipped-number"
	}
	return ""
}

func TestVP_C25_conn(t *testing.T) {
	vp.Run(t, vp.Spec[c25ConnCase]{ID: "C25", Sub: "conn", CrashFile: true, Gen: c25ConnGen, Known: c25ConnKnown, Prop: func(c c25ConnCase, r *vp.Rec) error {
		return vp.Bubble(func(bt *testing.T) error { return c25ConnRun(bt, c, r) })
	}})
}
