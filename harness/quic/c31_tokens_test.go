package quic

import (
	"bytes"
	crand "crypto/rand"
	"crypto/sha256"
	"encoding/binary"
	"fmt"
	"io"
	"net/netip"
	"testing"
	"time"

	"pgregory.net/rapid"
	"verif/vp"
)

// C31: address-validation (Retry) tokens and stateless-reset tokens are bound to
// their context.
//
// Retry: a token is issued by retryState.makeToken(t, srcConnID, origDstConnID, addr)
// which also returns the connection ID the client must use as destination from then
// on. The token is then presented through validateToken(t+delta, token', srcConnID',
// dstConnID', addr') where the primed values are the issued ones or a mutation of
// exactly one of them.
//
// Time is passed explicitly. The server key and the token nonces come from
// crypto/rand; during a case crypto/rand.Reader is replaced by a stream derived from
// the case's seed, so a case replays bit for bit.

const (
	c31PeriodMs = int64(retryTokenValidityPeriod / time.Millisecond)
	c31SlackMs  = 1000 // tokens carry whole seconds: behaviour within 1 s of the edge is not judged
)

type c31Present struct {
	Kind    string `json:"kind"`
	DeltaMs int64  `json:"delta_ms"`
	I       int    `json:"i,omitempty"`     // bit / length / variant selector
	Bytes   []byte `json:"bytes,omitempty"` // replacement address / conn ID / extension bytes
	Port    uint16 `json:"port,omitempty"`
}

type c31Case struct {
	Seed     []byte       `json:"seed"`
	IssueSec int64        `json:"issue_sec"`
	IssueNs  int64        `json:"issue_ns"`
	Addr     []byte       `json:"addr"` // 4 or 16 bytes
	Port     uint16       `json:"port"`
	SrcCID   []byte       `json:"src_cid"`
	ODCID    []byte       `json:"odcid"`
	Present  []c31Present `json:"present"`
}

// c31Stream is a deterministic byte stream (SHA-256 in counter mode).
type c31Stream struct {
	seed []byte
	ctr  uint64
	buf  []byte
}

func (s *c31Stream) Read(p []byte) (int, error) {
	for i := range p {
		if len(s.buf) == 0 {
			var c [8]byte
			binary.BigEndian.PutUint64(c[:], s.ctr)
			s.ctr++
			h := sha256.Sum256(append(append([]byte("verif-c31"), s.seed...), c[:]...))
			s.buf = h[:]
		}
		p[i] = s.buf[0]
		s.buf = s.buf[1:]
	}
	return len(p), nil
}

func c31WithRand(seed []byte, f func() error) error {
	old := crand.Reader
	crand.Reader = io.Reader(&c31Stream{seed: seed})
	defer func() { crand.Reader = old }()
	return f()
}

func c31AddrFrom(b []byte) (netip.Addr, bool) {
	a, ok := netip.AddrFromSlice(b)
	return a, ok
}

func c31Prop(c c31Case, r *vp.Rec) error {
	addr, ok := c31AddrFrom(c.Addr)
	if !ok || len(c.SrcCID) > maxConnIDLen || len(c.ODCID) > maxConnIDLen || c.IssueNs < 0 || c.IssueNs >= 1e9 {
		r.Discard("malformed case")
		return nil
	}
	return c31WithRand(c.Seed, func() error {
		var rs, other retryState
		if err := rs.init(); err != nil {
			return fmt.Errorf("retryState.init: %v", err)
		}
		if err := other.init(); err != nil {
			return fmt.Errorf("retryState.init: %v", err)
		}
		issue := time.Unix(c.IssueSec, c.IssueNs)
		ap := netip.AddrPortFrom(addr, c.Port)
		src := append([]byte{}, c.SrcCID...)
		odcid := append([]byte{}, c.ODCID...)
		token, dst, err := rs.makeToken(issue, src, odcid, ap)
		if err != nil {
			return fmt.Errorf("makeToken: %v", err)
		}
		if !bytes.Equal(src, c.SrcCID) || !bytes.Equal(odcid, c.ODCID) {
			return fmt.Errorf("makeToken modified its inputs")
		}
		if addr.Is4() {
			r.Class("issued-for-ipv4")
		} else if addr.Is4In6() {
			r.Class("issued-for-ipv4-mapped-ipv6")
		} else {
			r.Class("issued-for-ipv6")
		}
		for pi, p := range c.Present {
			tok := append([]byte{}, token...)
			s := append([]byte{}, c.SrcCID...)
			d := append([]byte{}, dst...)
			a := ap
			rsv := &rs
			mutated := true
			what := p.Kind
			switch p.Kind {
			case "same":
				mutated = false
			case "token-bit":
				if len(tok) == 0 {
					continue
				}
				bit := p.I % (8 * len(tok))
				if bit < 0 {
					bit += 8 * len(tok)
				}
				tok[bit/8] ^= 1 << (bit % 8)
				what = fmt.Sprintf("token bit %d flipped", bit)
			case "token-trunc":
				if len(tok) == 0 {
					continue
				}
				n := p.I % len(tok)
				if n < 0 {
					n += len(tok)
				}
				if len(p.Bytes) > 0 && p.Bytes[0]&1 == 1 {
					tok = tok[len(tok)-n:]
					what = fmt.Sprintf("token cut to its last %d of %d bytes", n, len(token))
				} else {
					tok = tok[:n]
					what = fmt.Sprintf("token cut to its first %d of %d bytes", n, len(token))
				}
			case "token-extend":
				ext := p.Bytes
				if len(ext) == 0 {
					ext = []byte{0}
				}
				if p.I&1 == 1 {
					tok = append(append([]byte{}, ext...), tok...)
					what = fmt.Sprintf("%d bytes put in front of the token", len(ext))
				} else {
					tok = append(tok, ext...)
					what = fmt.Sprintf("%d bytes appended to the token", len(ext))
				}
			case "addr":
				na, ok := c31AddrFrom(p.Bytes)
				if !ok || na == addr {
					continue
				}
				a = netip.AddrPortFrom(na, c.Port)
				what = fmt.Sprintf("address %v instead of %v", na, addr)
			case "addr-form":
				// the same IPv4 host written the other way (a.b.c.d <-> ::ffff:a.b.c.d)
				var na netip.Addr
				switch {
				case addr.Is4():
					na = netip.AddrFrom16(addr.As16())
				case addr.Is4In6():
					na = addr.Unmap()
				default:
					continue
				}
				a = netip.AddrPortFrom(na, c.Port)
				what = fmt.Sprintf("address %v instead of %v", na, addr)
			case "port":
				if p.Port == c.Port {
					continue
				}
				a = netip.AddrPortFrom(addr, p.Port)
				what = fmt.Sprintf("port %d instead of %d", p.Port, c.Port)
			case "src-cid":
				if bytes.Equal(p.Bytes, c.SrcCID) || len(p.Bytes) > maxConnIDLen {
					continue
				}
				s = append([]byte{}, p.Bytes...)
				what = fmt.Sprintf("source conn ID %x instead of %x", s, c.SrcCID)
			case "dst-cid":
				switch p.I % 4 {
				case 0: // one bit
					bit := (p.I / 4) % (8 * len(d))
					d[bit/8] ^= 1 << (bit % 8)
				case 1: // shorter
					d = d[:(p.I/4)%len(d)]
				case 2: // longer
					d = append(d, 0)
				default: // something else entirely
					if len(p.Bytes) > maxConnIDLen || bytes.Equal(p.Bytes, dst) {
						continue
					}
					d = append([]byte{}, p.Bytes...)
				}
				what = fmt.Sprintf("destination conn ID %x instead of %x", d, dst)
			case "odcid-as-dst":
				if bytes.Equal(c.ODCID, dst) {
					continue
				}
				d = append([]byte{}, c.ODCID...)
				what = "original destination conn ID presented as destination conn ID"
			case "shift-dst-token":
				// same concatenation dstConnID || token, boundary moved by one byte
				if p.I&1 == 0 {
					tok = append([]byte{d[len(d)-1]}, tok...)
					d = d[:len(d)-1]
				} else {
					if len(tok) == 0 {
						continue
					}
					d = append(d, tok[0])
					tok = tok[1:]
				}
				what = fmt.Sprintf("dst conn ID / token boundary moved (dst %d bytes, token %d bytes)", len(d), len(tok))
			case "shift-src-addr":
				// same concatenation srcConnID || IP, boundary moved by 12 bytes
				switch {
				case addr.Is4() && len(s) >= 12:
					var b16 [16]byte
					copy(b16[:], s[len(s)-12:])
					a4 := addr.As4()
					copy(b16[12:], a4[:])
					s = s[:len(s)-12]
					a = netip.AddrPortFrom(netip.AddrFrom16(b16), c.Port)
				case !addr.Is4() && len(s)+12 <= maxConnIDLen:
					b16 := addr.As16()
					s = append(s, b16[:12]...)
					var b4 [4]byte
					copy(b4[:], b16[12:])
					a = netip.AddrPortFrom(netip.AddrFrom4(b4), c.Port)
				default:
					continue
				}
				what = fmt.Sprintf("src conn ID / address boundary moved: src %x addr %v", s, a.Addr())
			case "other-state":
				rsv = &other
				what = "validated by a retryState with another key"
			default:
				continue
			}
			now := issue.Add(time.Duration(p.DeltaMs) * time.Millisecond)
			tokKeep := append([]byte{}, tok...)
			got, ok := rsv.validateToken(now, tok, s, d, a)
			if !bytes.Equal(tok, tokKeep) {
				return fmt.Errorf("presentation %d: validateToken modified the token", pi)
			}
			ctx := fmt.Sprintf("token issued at %d.%09d for %v src=%x odcid=%x, presented %+d ms later", c.IssueSec, c.IssueNs, ap, c.SrcCID, c.ODCID, p.DeltaMs)
			if mutated {
				r.Class("mutated:" + p.Kind)
				r.NonTrivial()
				if ok {
					return fmt.Errorf("presentation %d: %s; ACCEPTED although modified: %s", pi, ctx, what)
				}
				continue
			}
			switch {
			case p.DeltaMs >= 0 && p.DeltaMs <= c31PeriodMs-c31SlackMs:
				r.Class("same:inside-validity")
				if !ok {
					return fmt.Errorf("presentation %d: %s; unmodified token inside its validity period REJECTED", pi, ctx)
				}
			case p.DeltaMs >= c31PeriodMs+c31SlackMs:
				r.Class("same:expired")
				if ok {
					return fmt.Errorf("presentation %d: %s; expired token ACCEPTED (validity %d ms)", pi, ctx, c31PeriodMs)
				}
			case p.DeltaMs <= -(c31PeriodMs + c31SlackMs):
				r.Class("same:from-the-future-beyond-validity")
				if ok {
					return fmt.Errorf("presentation %d: %s; token presented more than its validity period before it was issued ACCEPTED", pi, ctx)
				}
			case p.DeltaMs < 0:
				r.Class("same:issued-in-the-future-within-period(not judged)")
			default:
				r.Class("same:within-1s-of-expiry(not judged)")
			}
			if p.DeltaMs >= c31PeriodMs-2000 && p.DeltaMs <= c31PeriodMs+2000 || -p.DeltaMs >= c31PeriodMs-2000 && -p.DeltaMs <= c31PeriodMs+2000 {
				r.NonTrivial()
			}
			if ok && !bytes.Equal(got, c.ODCID) {
				return fmt.Errorf("presentation %d: %s; accepted but returned original destination conn ID %x, issued for %x", pi, ctx, got, c.ODCID)
			}
		}
		return nil
	})
}

func c31AddrGen() *rapid.Generator[[]byte] {
	return rapid.Custom(func(t *rapid.T) []byte {
		switch rapid.IntRange(0, 5).Draw(t, "family") {
		case 0, 1, 2:
			return vp.Bytes(4, 4).Draw(t, "v4")
		case 3:
			b := append([]byte{0, 0, 0, 0, 0, 0, 0, 0, 0, 0, 0xff, 0xff}, vp.Bytes(4, 4).Draw(t, "mapped")...)
			return b
		default:
			return vp.Bytes(16, 16).Draw(t, "v6")
		}
	})
}

func c31Gen(t *rapid.T) c31Case {
	c := c31Case{
		Seed:     vp.Bytes(1, 8).Draw(t, "seed"),
		IssueSec: rapid.Int64Range(0, 1<<34).Draw(t, "sec"),
		IssueNs:  rapid.SampledFrom([]int64{0, 1, 499999999, 500000000, 999999999, -1}).Draw(t, "ns"),
		Addr:     c31AddrGen().Draw(t, "addr"),
		Port:     rapid.Uint16().Draw(t, "port"),
		SrcCID:   vp.Bytes(0, maxConnIDLen).Draw(t, "src"),
		ODCID:    vp.Bytes(0, maxConnIDLen).Draw(t, "odcid"),
	}
	if c.IssueNs < 0 {
		c.IssueNs = rapid.Int64Range(0, 999999999).Draw(t, "nsany")
	}
	insideDelta := rapid.Int64Range(0, c31PeriodMs-c31SlackMs)
	anyDelta := rapid.Custom(func(t *rapid.T) int64 {
		switch rapid.IntRange(0, 3).Draw(t, "dhow") {
		case 0:
			return insideDelta.Draw(t, "inside")
		case 1:
			edge := rapid.SampledFrom([]int64{c31PeriodMs, -c31PeriodMs}).Draw(t, "edge")
			return edge + rapid.Int64Range(-2000, 2000).Draw(t, "near")
		case 2:
			return rapid.Int64Range(-20000, 20000).Draw(t, "pm20s")
		default:
			return rapid.SampledFrom([]int64{0, c31PeriodMs - c31SlackMs, c31PeriodMs + c31SlackMs, -(c31PeriodMs + c31SlackMs), 3600000, -3600000, 86400000 * 365}).Draw(t, "fixed")
		}
	})
	kinds := []string{"same", "same", "same", "token-bit", "token-bit", "token-trunc", "token-extend", "addr", "addr-form", "port", "port", "src-cid", "src-cid", "dst-cid", "dst-cid", "odcid-as-dst", "shift-dst-token", "shift-src-addr", "other-state"}
	pres := rapid.Custom(func(t *rapid.T) c31Present {
		p := c31Present{Kind: rapid.SampledFrom(kinds).Draw(t, "kind")}
		if p.Kind == "same" {
			p.DeltaMs = anyDelta.Draw(t, "delta")
			return p
		}
		// a mutated presentation is normally made while the token is fresh, so that
		// only the mutation can be the reason for rejecting it
		if rapid.IntRange(0, 5).Draw(t, "late") == 0 {
			p.DeltaMs = anyDelta.Draw(t, "delta")
		} else {
			p.DeltaMs = insideDelta.Draw(t, "delta")
		}
		switch p.Kind {
		case "token-bit", "token-trunc", "dst-cid", "shift-dst-token":
			p.I = rapid.IntRange(0, 4095).Draw(t, "i")
			if p.Kind == "token-trunc" {
				p.Bytes = []byte{byte(rapid.IntRange(0, 1).Draw(t, "fromEnd"))}
			}
			if p.Kind == "dst-cid" {
				p.Bytes = vp.Bytes(0, maxConnIDLen).Draw(t, "cid")
			}
		case "token-extend":
			p.I = rapid.IntRange(0, 1).Draw(t, "front")
			p.Bytes = vp.Bytes(1, 20).Draw(t, "ext")
		case "addr":
			switch rapid.IntRange(0, 2).Draw(t, "how") {
			case 0: // one bit of the issued address
				b := append([]byte{}, c.Addr...)
				bit := rapid.IntRange(0, 8*len(b)-1).Draw(t, "bit")
				b[bit/8] ^= 1 << (bit % 8)
				p.Bytes = b
			default:
				p.Bytes = c31AddrGen().Draw(t, "other")
			}
		case "port":
			switch rapid.IntRange(0, 3).Draw(t, "how") {
			case 0:
				p.Port = c.Port + 1
			case 1:
				p.Port = c.Port<<8 | c.Port>>8
			case 2:
				p.Port = c.Port ^ (1 << rapid.IntRange(0, 15).Draw(t, "bit"))
			default:
				p.Port = rapid.Uint16().Draw(t, "p")
			}
		case "src-cid":
			b := append([]byte{}, c.SrcCID...)
			switch rapid.IntRange(0, 4).Draw(t, "how") {
			case 0:
				if len(b) > 0 {
					bit := rapid.IntRange(0, 8*len(b)-1).Draw(t, "bit")
					b[bit/8] ^= 1 << (bit % 8)
				} else {
					b = []byte{0}
				}
			case 1:
				if len(b) > 0 {
					b = b[:rapid.IntRange(0, len(b)-1).Draw(t, "cut")]
				} else {
					b = []byte{0}
				}
			case 2:
				if len(b) < maxConnIDLen {
					b = append(b, 0)
				} else {
					b = b[1:]
				}
			case 3:
				b = append([]byte{}, c.ODCID...)
			default:
				b = vp.Bytes(0, maxConnIDLen).Draw(t, "cid")
			}
			p.Bytes = b
		}
		return p
	})
	c.Present = rapid.SliceOfN(pres, 1, 6).Draw(t, "present")
	return c
}

func TestVP_C31(t *testing.T) {
	vp.Run(t, vp.Spec[c31Case]{ID: "C31", Gen: c31Gen, Prop: c31Prop})
}

// ---- stateless reset tokens --------------------------------------------------

type c31Pair struct {
	Key []byte `json:"key"` // 32 bytes
	CID []byte `json:"cid"`
}

type c31ResetCase struct {
	Seed  []byte    `json:"seed"`
	Pairs []c31Pair `json:"pairs"`
}

func c31IsZero(b []byte) bool {
	for _, x := range b {
		if x != 0 {
			return false
		}
	}
	return true
}

func c31ResetProp(c c31ResetCase, r *vp.Rec) error {
	for _, p := range c.Pairs {
		if len(p.Key) != 32 {
			r.Discard("key is not 32 bytes")
			return nil
		}
	}
	return c31WithRand(c.Seed, func() error {
		newGen := func(key []byte) *statelessResetTokenGenerator {
			var k [32]byte
			copy(k[:], key)
			g := &statelessResetTokenGenerator{}
			g.init(k)
			return g
		}
		// one generator per distinct key, used for all conn IDs of that key in order
		shared := map[string]*statelessResetTokenGenerator{}
		toks := make([]statelessResetToken, len(c.Pairs))
		for i, p := range c.Pairs {
			g := shared[string(p.Key)]
			if g == nil {
				g = newGen(p.Key)
				shared[string(p.Key)] = g
			}
			cid := append([]byte{}, p.CID...)
			toks[i] = g.tokenForConnID(cid)
			if !bytes.Equal(cid, p.CID) {
				return fmt.Errorf("tokenForConnID modified the conn ID")
			}
		}
		// determinism: the same generator asked again (other order), and a fresh
		// generator with the same key
		for i := len(c.Pairs) - 1; i >= 0; i-- {
			p := c.Pairs[i]
			if again := shared[string(p.Key)].tokenForConnID(p.CID); again != toks[i] {
				return fmt.Errorf("pair %d: the same generator returned %x then %x for conn ID %x", i, toks[i], again, p.CID)
			}
			if c31IsZero(p.Key) {
				// the all-zero key means "no key configured": the generator picks a
				// random secret, so different generators are not comparable
				r.Class("zero-key(same-generator determinism only)")
				continue
			}
			if fresh := newGen(p.Key).tokenForConnID(p.CID); fresh != toks[i] {
				return fmt.Errorf("pair %d: key %x conn ID %x: token %x from one generator, %x from another with the same key", i, p.Key, p.CID, toks[i], fresh)
			}
		}
		for i := range c.Pairs {
			for j := i + 1; j < len(c.Pairs); j++ {
				a, b := c.Pairs[i], c.Pairs[j]
				sameKey, sameCID := bytes.Equal(a.Key, b.Key), bytes.Equal(a.CID, b.CID)
				switch {
				case sameKey && sameCID:
					r.Class("pair-identical")
					if toks[i] != toks[j] {
						return fmt.Errorf("pairs %d,%d are the same (key %x, conn ID %x) but tokens differ: %x vs %x", i, j, a.Key, a.CID, toks[i], toks[j])
					}
				default:
					if sameKey {
						r.Class("pair-same-key-different-cid")
					} else if sameCID {
						r.Class("pair-different-key-same-cid")
					} else {
						r.Class("pair-both-different")
					}
					if toks[i] == toks[j] {
						return fmt.Errorf("pairs %d (key %x, conn ID %x) and %d (key %x, conn ID %x) have the same token %x", i, a.Key, a.CID, j, b.Key, b.CID, toks[i])
					}
				}
			}
		}
		if len(c.Pairs) >= 2 {
			r.NonTrivial()
		}
		return nil
	})
}

func c31ResetGen(t *rapid.T) c31ResetCase {
	c := c31ResetCase{Seed: vp.Bytes(1, 4).Draw(t, "seed")}
	baseKey := vp.Bytes(32, 32).Draw(t, "key")
	if rapid.IntRange(0, 15).Draw(t, "zeroKey") == 0 {
		baseKey = make([]byte, 32)
	}
	baseCID := vp.Bytes(0, maxConnIDLen).Draw(t, "cid")
	flip := func(t *rapid.T, b []byte) []byte {
		out := append([]byte{}, b...)
		if len(out) == 0 {
			return []byte{0}
		}
		bit := rapid.IntRange(0, 8*len(out)-1).Draw(t, "bit")
		out[bit/8] ^= 1 << (bit % 8)
		return out
	}
	pair := rapid.Custom(func(t *rapid.T) c31Pair {
		p := c31Pair{Key: baseKey, CID: baseCID}
		switch rapid.IntRange(0, 4).Draw(t, "keyhow") {
		case 0:
			p.Key = flip(t, baseKey)
		case 1:
			p.Key = vp.Bytes(32, 32).Draw(t, "otherkey")
		}
		switch rapid.IntRange(0, 6).Draw(t, "cidhow") {
		case 0:
			p.CID = flip(t, baseCID)
		case 1:
			if len(baseCID) < maxConnIDLen {
				p.CID = append(append([]byte{}, baseCID...), 0)
			}
		case 2:
			if len(baseCID) > 0 {
				p.CID = baseCID[:rapid.IntRange(0, len(baseCID)-1).Draw(t, "cut")]
			}
		case 3:
			if len(baseCID) > 0 {
				p.CID = baseCID[1:]
			}
		case 4:
			p.CID = vp.Bytes(0, maxConnIDLen).Draw(t, "othercid")
		}
		return p
	})
	c.Pairs = rapid.SliceOfN(pair, 2, 6).Draw(t, "pairs")
	return c
}

func TestVP_C31_reset(t *testing.T) {
	vp.Run(t, vp.Spec[c31ResetCase]{ID: "C31", Sub: "reset", Gen: c31ResetGen, Prop: c31ResetProp})
}
