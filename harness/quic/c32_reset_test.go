package quic

// C32: QUIC stream resets carry consistent final sizes.
//
// Send side (TestVP_C32): once a stream's send side is reset (Stream.Reset, or a
// peer STOP_SENDING) no STREAM frame for it is sent any more, and every RESET_STREAM
// (first transmission and retransmissions after loss/PTO) states a final size equal
// to the highest offset+length of all STREAM frames sent for the stream.
//
// Receive side (TestVP_C32_recv): a peer RESET_STREAM or STREAM frame that changes a
// known final size, carries data beyond it, or states a final size below data
// already received closes the connection with FINAL_SIZE_ERROR; consistent frames
// (duplicates included) do not; after a peer reset Read never reports io.EOF but an
// error.
//
// One Conn driven through the repository's testConn in a synctest bubble (see
// c20_flow_test.go for the shared vpDrain/vpAdvance helpers).

import (
	"errors"
	"fmt"
	"io"
	"testing"
	"time"

	"pgregory.net/rapid"
	"verif/vp"
)

// ---------------------------------------------------------------- send side

type c32Step struct {
	Kind  string `json:"kind"`
	S     int    `json:"s,omitempty"`
	N     int64  `json:"n,omitempty"`
	Flush bool   `json:"flush,omitempty"`
}

type c32Case struct {
	Server       bool      `json:"server"`
	MaxData      int64     `json:"max_data"`
	SDBidiLocal  int64     `json:"sd_bidi_local"`  // peer's initial_max_stream_data_bidi_local
	SDBidiRemote int64     `json:"sd_bidi_remote"` // peer's initial_max_stream_data_bidi_remote
	SDUni        int64     `json:"sd_uni"`
	WriteBuf     int64     `json:"write_buf"` // our MaxStreamWriteBufferSize
	Steps        []c32Step `json:"steps"`
}

// send slots: 0,1 locally opened bidi; 2 locally opened uni; 3 the send side of the
// peer's bidi stream 0.
const c32Slots = 4

func c32Gen(t *rapid.T) c32Case {
	lim := rapid.SampledFrom([]int64{0, 10, 100, 1000, 1000, 4096, 4096, 1 << 20, 1 << 20})
	c := c32Case{
		Server:       rapid.Bool().Draw(t, "server"),
		MaxData:      rapid.SampledFrom([]int64{0, 100, 1000, 1 << 20, 1 << 20, 1 << 20}).Draw(t, "maxdata"),
		SDBidiLocal:  lim.Draw(t, "sdbl"),
		SDBidiRemote: lim.Draw(t, "sdbr"),
		SDUni:        lim.Draw(t, "sduni"),
		WriteBuf:     rapid.SampledFrom([]int64{100, 4096, 1 << 20}).Draw(t, "writebuf"),
	}
	amount := rapid.OneOf(rapid.Int64Range(0, 3000), rapid.SampledFrom([]int64{0, 1, 9, 10, 11, 100, 101, 1000, 1200, 4096, 5000}))
	kinds := []string{
		"write", "write", "write", "write", "write", "write", "write", "flush",
		"reset", "reset", "stop", "closewrite", "close",
		"maxsd", "maxsd", "maxdata",
		"ack", "acklatest", "advance", "advance", "advance",
	}
	step := rapid.Custom(func(t *rapid.T) c32Step {
		s := c32Step{Kind: rapid.SampledFrom(kinds).Draw(t, "kind")}
		switch s.Kind {
		case "ack", "acklatest", "advance":
			return s
		case "maxdata":
		default:
			s.S = rapid.SampledFrom([]int{0, 0, 0, 1, 2, 3, 3}).Draw(t, "s") // < c32Slots
		}
		switch s.Kind {
		case "write":
			s.N = amount.Draw(t, "n")
			s.Flush = rapid.IntRange(0, 3).Draw(t, "flush") != 0
		case "reset", "stop":
			s.N = rapid.SampledFrom([]int64{0, 1, 7, 1 << 30}).Draw(t, "code")
		case "maxsd", "maxdata":
			s.N = rapid.SampledFrom([]int64{1, 10, 100, 1000, 1200, 5000, 100000}).Draw(t, "inc")
		}
		return s
	})
	c.Steps = rapid.SliceOfN(step, 2, 40).Draw(t, "steps")
	return c
}

type c32Sent struct {
	seen      bool   // some frame of the stream was on the wire
	maxEnd    int64  // highest offset+len over all STREAM frames
	fin       bool   // a STREAM frame with FIN was sent
	resets    int    // RESET_STREAM frames seen
	requested string // who reset the send side ("" if nobody)
}

func c32SendRun(t *testing.T, c c32Case, r *vp.Rec) error {
	side := clientSide
	if c.Server {
		side = serverSide
	}
	tc := newTestConn(t, side, func(p *transportParameters) {
		p.initialMaxData = c.MaxData
		p.initialMaxStreamDataBidiLocal = c.SDBidiLocal
		p.initialMaxStreamDataBidiRemote = c.SDBidiRemote
		p.initialMaxStreamDataUni = c.SDUni
		p.initialMaxStreamsBidi = 100
		p.initialMaxStreamsUni = 100
	}, func(cfg *Config) {
		cfg.MaxStreamWriteBufferSize = c.WriteBuf
		cfg.MaxIdleTimeout = -1
	})
	tc.handshake()
	tc.ignoreFrame(frameTypeAck)
	ctx := canceledContext()

	sent := map[streamID]*c32Sent{}
	get := func(id streamID) *c32Sent {
		x := sent[id]
		if x == nil {
			x = &c32Sent{}
			sent[id] = x
		}
		return x
	}
	var closeErr error
	nontrivial, retrans, unsentAtReset := false, false, false
	written := map[streamID]int64{}
	maxSD := map[streamID]int64{}
	peerMaxData := c.MaxData
	onFrame := func(fr debugFrame, pt packetType) error {
		switch f := fr.(type) {
		case debugFrameStream:
			x := get(f.id)
			if x.resets > 0 {
				return fmt.Errorf("STREAM frame (off=%d len=%d fin=%v) for stream %v after its RESET_STREAM was sent", f.off, len(f.data), f.fin, f.id)
			}
			if x.requested != "" {
				return fmt.Errorf("STREAM frame (off=%d len=%d fin=%v) for stream %v after its send side was reset by %s", f.off, len(f.data), f.fin, f.id, x.requested)
			}
			x.seen = true
			x.maxEnd = max(x.maxEnd, f.off+int64(len(f.data)))
			x.fin = x.fin || f.fin
		case debugFrameResetStream:
			x := get(f.id)
			x.seen = true
			if f.finalSize != x.maxEnd {
				return fmt.Errorf("RESET_STREAM for stream %v (transmission %d) states final size %d, but the highest offset sent in STREAM frames is %d", f.id, x.resets+1, f.finalSize, x.maxEnd)
			}
			x.resets++
			if x.resets > 1 {
				retrans = true
			}
			if x.maxEnd > 0 {
				nontrivial = true
			}
			if written[f.id] > x.maxEnd {
				unsentAtReset = true
			}
		case debugFrameStreamDataBlocked:
			get(f.id).seen = true
		case debugFrameMaxStreamData:
			get(f.id).seen = true
		case debugFrameStopSending:
			get(f.id).seen = true
		case debugFrameConnectionCloseTransport:
			closeErr = fmt.Errorf("unexpected CONNECTION_CLOSE %v (%q)", f.code, f.reason)
		case debugFrameConnectionCloseApplication:
			closeErr = fmt.Errorf("unexpected application CONNECTION_CLOSE %v", f.code)
		}
		return nil
	}
	drain := func() error {
		if err := vpDrain(tc, onFrame); err != nil {
			return err
		}
		return closeErr
	}

	// the peer opens its bidi stream 0; the app accepts it
	var streams [c32Slots]*Stream
	remoteID := newStreamID(side.peer(), bidiStream, 0)
	tc.writeFrames(packetType1RTT, debugFrameStream{id: remoteID})
	rs, err := tc.conn.AcceptStream(ctx)
	if err != nil {
		return fmt.Errorf("AcceptStream: %v", err)
	}
	rs.SetReadContext(ctx)
	rs.SetWriteContext(ctx)
	streams[3] = rs
	get(remoteID).seen = true
	if err := drain(); err != nil {
		return err
	}
	stream := func(i int) *Stream {
		if streams[i] == nil {
			styp := bidiStream
			if i == 2 {
				styp = uniStream
			}
			s, err := tc.conn.newLocalStream(ctx, styp)
			if err != nil {
				return nil
			}
			s.SetReadContext(ctx)
			s.SetWriteContext(ctx)
			streams[i] = s
		}
		return streams[i]
	}
	initialSD := func(id streamID) int64 {
		switch {
		case id.streamType() == uniStream:
			return c.SDUni
		case id.initiator() == side:
			return c.SDBidiRemote
		}
		return c.SDBidiLocal
	}

	for _, st := range c.Steps {
		switch st.Kind {
		case "write":
			s := stream(st.S)
			if s == nil {
				continue
			}
			n, _ := s.Write(make([]byte, st.N))
			written[s.id] += int64(n)
			if st.Flush {
				s.Flush()
			}
		case "flush":
			if s := stream(st.S); s != nil {
				s.Flush()
			}
		case "closewrite":
			if s := stream(st.S); s != nil {
				s.CloseWrite()
			}
		case "close":
			if s := stream(st.S); s != nil {
				s.Close()
			}
		case "reset":
			s := stream(st.S)
			if s == nil {
				continue
			}
			s.Reset(uint64(st.N))
			if x := get(s.id); x.requested == "" {
				x.requested = "Stream.Reset"
				r.Class("app-reset")
			}
		case "stop":
			s := stream(st.S)
			if s == nil {
				continue
			}
			x := get(s.id)
			if !x.seen {
				// the peer does not know this stream yet: have the conn open it
				s.Flush()
				if err := drain(); err != nil {
					return err
				}
				if !x.seen {
					continue
				}
			}
			tc.writeFrames(packetType1RTT, debugFrameStopSending{id: s.id, code: uint64(st.N)})
			// RFC 9000 3.5: in the "Data Sent" state (FIN already sent) an endpoint may
			// go on retransmitting instead of resetting; only before that the
			// STOP_SENDING resets the send side for certain.
			if x.requested == "" && !x.fin {
				x.requested = "the peer's STOP_SENDING"
				r.Class("peer-STOP_SENDING")
			}
		case "maxsd":
			s := stream(st.S)
			if s == nil || !get(s.id).seen {
				continue
			}
			if _, ok := maxSD[s.id]; !ok {
				maxSD[s.id] = initialSD(s.id)
			}
			maxSD[s.id] += st.N
			tc.writeFrames(packetType1RTT, debugFrameMaxStreamData{id: s.id, max: maxSD[s.id]})
		case "maxdata":
			peerMaxData += st.N
			tc.writeFrames(packetType1RTT, debugFrameMaxData{max: peerMaxData})
		case "ack":
			tc.writeAckForAll()
		case "acklatest":
			tc.writeAckForLatest()
		case "advance":
			vpAdvance(tc, 10*time.Second)
		}
		if err := drain(); err != nil {
			return fmt.Errorf("%w (after step %+v)", err, st)
		}
	}
	if retrans {
		r.Class("RESET_STREAM-retransmitted")
	}
	if unsentAtReset {
		r.Class("reset-with-unsent-data")
	}
	if nontrivial {
		r.Class("reset-after-data-sent")
		r.NonTrivial()
	}
	return nil
}

func TestVP_C32(t *testing.T) {
	vp.Run(t, vp.Spec[c32Case]{ID: "C32", CrashFile: true, Gen: c32Gen, Prop: func(c c32Case, r *vp.Rec) error {
		return vp.Bubble(func(bt *testing.T) error { return c32SendRun(bt, c, r) })
	}})
}

// ---------------------------------------------------------------- receive side

type c32RecvStep struct {
	Kind string `json:"kind"` // data, reset, dup, read
	S    int    `json:"s"`
	Off  int64  `json:"off,omitempty"`
	Len  int64  `json:"len,omitempty"`
	Fin  bool   `json:"fin,omitempty"`
	N    int64  `json:"n,omitempty"` // final size (reset), buffer size (read)
}

type c32RecvCase struct {
	Server bool          `json:"server"`
	Steps  []c32RecvStep `json:"steps"`
}

// receive slots: 0 the peer's bidi stream 0, 1 the peer's uni stream 0, 2 the
// receive side of our own bidi stream 0 (opened on the wire before the script starts).
const c32RecvSlots = 3

func c32RecvGen(t *rapid.T) c32RecvCase {
	small := rapid.Int64Range(0, 12)
	off := rapid.OneOf(small, small, small, rapid.Int64Range(0, 3000))
	step := rapid.Custom(func(t *rapid.T) c32RecvStep {
		s := c32RecvStep{
			Kind: rapid.SampledFrom([]string{"data", "data", "data", "data", "reset", "reset", "dup", "read", "read"}).Draw(t, "kind"),
			S:    rapid.SampledFrom([]int{0, 0, 0, 1, 1, 2}).Draw(t, "s"),
		}
		switch s.Kind {
		case "data":
			s.Off = off.Draw(t, "off")
			s.Len = rapid.OneOf(rapid.Int64Range(0, 6), rapid.Int64Range(0, 6), rapid.Int64Range(0, 1000)).Draw(t, "len")
			s.Fin = rapid.IntRange(0, 2).Draw(t, "fin") == 0
		case "reset":
			s.N = off.Draw(t, "final")
		case "read":
			s.N = rapid.SampledFrom([]int64{1, 4, 4096}).Draw(t, "n")
		}
		return s
	})
	return c32RecvCase{
		Server: rapid.Bool().Draw(t, "server"),
		Steps:  rapid.SliceOfN(step, 2, 14).Draw(t, "steps"),
	}
}

type c32Recv struct {
	id        streamID
	s         *Stream
	final     int64 // known final size, -1 if none
	maxRecv   int64 // highest offset of data received
	reset     bool  // the peer's RESET_STREAM was accepted
	finFirst  bool  // a FIN was known before the reset arrived
	last      debugFrame
	readAfter bool
}

func c32RecvRun(t *testing.T, c c32RecvCase, r *vp.Rec) error {
	side := clientSide
	if c.Server {
		side = serverSide
	}
	tc := newTestConn(t, side, permissiveTransportParameters, func(cfg *Config) {
		cfg.MaxIdleTimeout = -1
	})
	tc.handshake()
	tc.ignoreFrame(frameTypeAck)
	ctx := canceledContext()

	gotClose, closeApp := false, false
	var closeCode transportError
	onFrame := func(fr debugFrame, pt packetType) error {
		switch f := fr.(type) {
		case debugFrameConnectionCloseTransport:
			gotClose = true
			closeCode = f.code
		case debugFrameConnectionCloseApplication:
			gotClose, closeApp = true, true
		}
		return nil
	}
	drain := func() error { return vpDrain(tc, onFrame) }

	var rs [c32RecvSlots]*c32Recv
	rs[0] = &c32Recv{id: newStreamID(side.peer(), bidiStream, 0), final: -1}
	rs[1] = &c32Recv{id: newStreamID(side.peer(), uniStream, 0), final: -1}
	ls, err := tc.conn.newLocalStream(ctx, bidiStream)
	if err != nil {
		return fmt.Errorf("NewStream: %v", err)
	}
	ls.SetReadContext(ctx)
	ls.SetWriteContext(ctx)
	ls.Flush()
	rs[2] = &c32Recv{id: ls.id, s: ls, final: -1}
	if err := drain(); err != nil {
		return err
	}
	if gotClose {
		return fmt.Errorf("connection closed (%v) before the script started", closeCode)
	}

	// readCheck reads once from a stream the peer has reset.
	readCheck := func(x *c32Recv, n int64) (done bool, err error) {
		got, rerr := x.s.Read(make([]byte, n))
		if errors.Is(rerr, io.EOF) {
			return true, fmt.Errorf("Read on stream %v returned io.EOF (n=%d) after the peer's RESET_STREAM", x.id, got)
		}
		return rerr != nil, nil
	}
	decision := false
	for _, st := range c.Steps {
		x := rs[st.S]
		var fr debugFrame
		var end int64
		fin := false
		switch st.Kind {
		case "data":
			off := st.Off
			if st.Len == 0 && !st.Fin {
				off = 0 // whether an empty frame counts as "data received up to off" is left open
			}
			fr = debugFrameStream{id: x.id, off: off, fin: st.Fin, data: make([]byte, st.Len)}
			end, fin = off+st.Len, st.Fin
		case "reset":
			fr = debugFrameResetStream{id: x.id, code: 5, finalSize: st.N}
			end, fin = st.N, true
		case "dup":
			if x.last == nil {
				continue
			}
			fr = x.last
			switch f := fr.(type) {
			case debugFrameStream:
				end, fin = f.off+int64(len(f.data)), f.fin
			case debugFrameResetStream:
				end, fin = f.finalSize, true
			}
			r.Class("duplicate-frame")
		case "read":
			if x.s == nil {
				continue
			}
			if x.reset && !x.finFirst {
				x.readAfter = true
				if _, err := readCheck(x, st.N); err != nil {
					return err
				}
			} else {
				x.s.Read(make([]byte, st.N))
			}
			if err := drain(); err != nil {
				return err
			}
			if gotClose {
				return fmt.Errorf("connection closed with %v after a Read", closeCode)
			}
			continue
		}
		// what the statement demands for this frame
		want := ""
		switch {
		case x.final != -1 && end > x.final:
			want = fmt.Sprintf("reaches offset %d beyond the known final size %d", end, x.final)
		case fin && x.final != -1 && end != x.final:
			want = fmt.Sprintf("states final size %d, contradicting the known final size %d", end, x.final)
		case fin && end < x.maxRecv:
			want = fmt.Sprintf("states final size %d below data already received up to %d", end, x.maxRecv)
		}
		if fin || x.final != -1 {
			decision = true
		}
		tc.writeFrames(packetType1RTT, fr)
		if err := drain(); err != nil {
			return err
		}
		if want != "" {
			r.Class("final-size-violation")
			r.NonTrivial()
			if !gotClose {
				return fmt.Errorf("peer frame %v %s, but the connection was not closed", fr, want)
			}
			if closeApp || closeCode != errFinalSize {
				return fmt.Errorf("peer frame %v %s: CONNECTION_CLOSE code %v (application=%v), want FINAL_SIZE_ERROR", fr, want, closeCode, closeApp)
			}
			return nil
		}
		if gotClose {
			return fmt.Errorf("connection closed with %v (application=%v) by peer frame %v, which is consistent with everything sent before (final size %d, data received up to %d)", closeCode, closeApp, fr, x.final, x.maxRecv)
		}
		x.last = fr
		if f, ok := fr.(debugFrameStream); ok && len(f.data) > 0 {
			x.maxRecv = max(x.maxRecv, end)
		}
		if _, ok := fr.(debugFrameResetStream); ok && !x.reset {
			x.reset = true
			x.finFirst = x.final != -1
			r.Class("peer-reset-accepted")
		}
		if fin {
			x.final = end
		}
		if x.s == nil {
			s, err := tc.conn.AcceptStream(ctx)
			if err != nil {
				return fmt.Errorf("AcceptStream after %v: %v", fr, err)
			}
			s.SetReadContext(ctx)
			s.SetWriteContext(ctx)
			for _, y := range rs {
				if y.id == s.id {
					y.s = s
				}
			}
			if x.s == nil {
				return fmt.Errorf("AcceptStream returned stream %v after the peer opened %v", s.id, x.id)
			}
		}
	}
	// after a reset, Read must end in an error that is not io.EOF
	for _, x := range rs {
		if !x.reset || x.finFirst || x.s == nil {
			continue
		}
		x.readAfter = true
		done := false
		for i := 0; i < 8 && !done; i++ {
			var err error
			if done, err = readCheck(x, 4096); err != nil {
				return err
			}
		}
		if !done {
			return fmt.Errorf("Read on stream %v keeps succeeding after the peer's RESET_STREAM (8 reads of 4096 bytes, final size %d)", x.id, x.final)
		}
		r.Class("read-after-reset")
		r.NonTrivial()
	}
	if decision {
		r.Class("frame-against-known-final-size")
	}
	return nil
}

func TestVP_C32_recv(t *testing.T) {
	vp.Run(t, vp.Spec[c32RecvCase]{ID: "C32", Sub: "recv", CrashFile: true, Gen: c32RecvGen, Prop: func(c c32RecvCase, r *vp.Rec) error {
		return vp.Bubble(func(bt *testing.T) error { return c32RecvRun(bt, c, r) })
	}})
}
