package quic

import (
	"errors"
	"fmt"
	"testing"
	"time"

	"pgregory.net/rapid"
	"verif/vp"
)

// C26: QUIC loss recovery accounts for every sent packet exactly once.
//
// A history of lossState calls is drawn up front (plain data) and replayed on a
// generated, monotone clock.  The harness plays the role of Conn: it respects the
// preconditions the real callers respect (see the comment on c26Run) and keeps a
// model  (space, number) -> {size, inFlight, fate}  that is fed only by the ack/loss
// callbacks and by the harness's own discardKeys calls.

type c26Op struct {
	// K: send | skip | ack | adv | timer | recv | retry | dropkeys | validate | maxackdelay | util
	K       string     `json:"k"`
	Dt      int64      `json:"dt,omitempty"`      // microseconds the clock moves before the op
	Sp      int        `json:"sp,omitempty"`      // number space 0..2 (send, ack)
	Size    int        `json:"size,omitempty"`    // send: packet size; recv: datagram size
	N       int        `json:"n,omitempty"`       // send: burst of N packets (each consults sendLimit)
	AE      bool       `json:"ae,omitempty"`      // send: ack-eliciting (implies in flight)
	IF      bool       `json:"if,omitempty"`      // send: in flight although not ack-eliciting (PADDING)
	Back    int64      `json:"back,omitempty"`    // ack: first range ends at nextNum-Back (negative: beyond what was sent)
	Rng     [][2]int64 `json:"rng,omitempty"`     // ack: {length >= 1, distance >= 1 to the next (lower) range}
	Skipped bool       `json:"skipped,omitempty"` // ack: do not cut skipped numbers out of the ranges
	Delay   int64      `json:"delay,omitempty"`   // ack: ack delay in microseconds; maxackdelay: milliseconds
	V       bool       `json:"v,omitempty"`       // util: value
}

type c26Case struct {
	Server    bool    `json:"server"`
	MDS       int     `json:"mds"` // max datagram size given to lossState.init
	Ops       []c26Op `json:"ops"`
	FinalDrop int     `json:"final_drop"` // key discards (initial, then handshake) done by the final step
	FinalDt   int64   `json:"final_dt"`
}

const (
	c26None = iota
	c26Acked
	c26Lost
	c26Discarded
)

type c26Pkt struct {
	size     int
	inFlight bool
	skipped  bool // number consumed by skipNumber: never sent, has no fate
	fate     int
}

type c26Model struct {
	pk   [numberSpaceCount][]*c26Pkt
	dead [numberSpaceCount]bool // keys discarded
	err  error                  // first violation seen inside a callback

	sawLoss bool
}

func (m *c26Model) fail(format string, a ...any) {
	if m.err == nil {
		m.err = fmt.Errorf(format, a...)
	}
}

// onFate is the ackf/lossf callback (Conn passes one function for both, too).
func (m *c26Model) onFate(space numberSpace, sent *sentPacket, fate packetFate) {
	name := "lost"
	nf := c26Lost
	if fate == packetAcked {
		name, nf = "acked", c26Acked
	}
	if int(space) >= len(m.pk) || sent.num < 0 || int(sent.num) >= len(m.pk[space]) || m.dead[space] {
		m.fail("callback %s for %v packet %d, which was never recorded as sent (or whose keys are gone)", name, space, sent.num)
		return
	}
	p := m.pk[space][sent.num]
	if p.skipped {
		m.fail("callback %s for %v number %d, which was skipped, not sent", name, space, sent.num)
		return
	}
	if p.fate != c26None {
		m.fail("%v packet %d reported %s but it already has fate %s", space, sent.num, name, c26FateName(p.fate))
		return
	}
	p.fate = nf
	if nf == c26Lost {
		m.sawLoss = true
	}
}

func c26FateName(f int) string {
	return [...]string{"none", "acked", "lost", "discarded"}[f]
}

func (m *c26Model) inFlightBytes() int {
	n := 0
	for sp := range m.pk {
		for _, p := range m.pk[sp] {
			if !p.skipped && p.inFlight && p.fate == c26None {
				n += p.size
			}
		}
	}
	return n
}

func (m *c26Model) outstanding(sp numberSpace) int {
	n := 0
	for _, p := range m.pk[sp] {
		if !p.skipped && p.fate == c26None {
			n++
		}
	}
	return n
}

// c26Ranges turns the relative description of an ACK frame into descending,
// non-adjacent [start,end) ranges as consumeAckFrame would deliver them.
func c26Ranges(next, back int64, rng [][2]int64, skipped map[int64]bool, keepSkipped bool) [][2]int64 {
	var out [][2]int64
	end := next - back
	for _, r := range rng {
		if end <= 0 {
			break
		}
		l, g := r[0], r[1]
		if l < 1 {
			l = 1
		}
		if g < 1 {
			g = 1
		}
		start := end - l
		if start < 0 {
			start = 0
		}
		out = append(out, [2]int64{start, end})
		end = start - g
	}
	if keepSkipped {
		return out
	}
	var cut [][2]int64
	for _, r := range out {
		hi := r[1]
		for n := r[1] - 1; n >= r[0]; n-- {
			if skipped[n] {
				if n+1 < hi {
					cut = append(cut, [2]int64{n + 1, hi})
				}
				hi = n
			}
			if r[1]-n > 4096 { // ranges are bounded by the history length; be safe
				break
			}
		}
		if r[0] < hi {
			cut = append(cut, [2]int64{r[0], hi})
		}
	}
	return cut
}

// c26Run replays the history.
//
// Preconditions kept, as the callers in conn.go / conn_send.go / conn_recv.go keep them:
//   - the clock never goes backwards;
//   - a packet is sent only when sendLimit allows it: nothing at all when ccBlocked,
//     only ACK-only packets (not ack-eliciting, not in flight) unless ccOK; its size is
//     at most maxSendSize(); ack-eliciting implies in flight; numbers come from nextNumber;
//   - skipNumber only in the application data space, directly after a sent packet;
//   - ACK ranges arrive in descending order, disjoint and non-adjacent, start >= 0,
//     ack delay >= 0; after a range error the remaining ranges and receiveAckEnd still
//     run (handleAckFrame does not stop); no ACK and no packet for a space whose keys
//     were discarded;
//   - discardPackets (Retry) only on a client, once, for the Initial space, before any
//     ACK was processed and before any non-Initial packet was sent;
//   - keys are discarded in the order Initial, Handshake; the Handshake keys together
//     with confirmHandshake; application keys never.
func c26Run(c c26Case, r *vp.Rec) error {
	if c.MDS < 1200 {
		return fmt.Errorf("harness: bad max datagram size %d", c.MDS)
	}
	side := clientSide
	if c.Server {
		side = serverSide
	}
	now := time.Date(2000, 1, 1, 0, 0, 0, 0, time.UTC)
	var ls lossState
	ls.init(side, c.MDS, now)
	m := &c26Model{}
	minWindow := 2 * c.MDS // RFC 9002 7.2: minimum window is 2 * max_datagram_size

	var (
		anyAck       bool // an ACK frame was processed
		nonInitial   bool // a packet outside the Initial space was sent
		retried      bool
		lastAppSend  bool // previous application-space event was a real send
		lateAck      bool
		dropWithOuts bool
	)
	skipped := [numberSpaceCount]map[int64]bool{{}, {}, {}}

	check := func(step string) error {
		if m.err != nil {
			return fmt.Errorf("%s: %v", step, m.err)
		}
		want := m.inFlightBytes()
		if ls.cc.bytesInFlight < 0 {
			return fmt.Errorf("%s: bytesInFlight = %d < 0 (model %d)", step, ls.cc.bytesInFlight, want)
		}
		if ls.cc.bytesInFlight != want {
			return fmt.Errorf("%s: bytesInFlight = %d, but in-flight packets without a fate sum to %d", step, ls.cc.bytesInFlight, want)
		}
		if ls.cc.congestionWindow < minWindow {
			return fmt.Errorf("%s: congestion window %d below the minimum window %d", step, ls.cc.congestionWindow, minWindow)
		}
		return nil
	}

	// ack processes one ACK frame the way Conn.handleAckFrame does.
	ack := func(step string, sp numberSpace, ranges [][2]int64, delay time.Duration, final bool) error {
		next := int64(len(m.pk[sp]))
		ls.receiveAckStart()
		for i, rg := range ranges {
			listStart := int64(ls.spaces[sp].start())
			wantErr := ""
			if rg[1] > next {
				wantErr = "an unsent number"
			} else {
				// every skipped number counts, also one whose marker has already left
				// the sent-packet list (the optimistic-ACK pattern skipping exists for)
				for n := rg[0]; n < rg[1]; n++ {
					if skipped[sp][n] {
						wantErr = fmt.Sprintf("the skipped number %d", n)
						if n < listStart {
							r.Class("ack-names-forgotten-skipped-number")
						}
						break
					}
				}
			}
			for n := rg[0]; n < rg[1] && n < next; n++ {
				if p := m.pk[sp][n]; !p.skipped && p.fate == c26Lost {
					lateAck = true
				}
			}
			err := ls.receiveAckRange(now, sp, i, packetNumber(rg[0]), packetNumber(rg[1]), m.onFate)
			if wantErr != "" {
				r.Class("ack-names-unsent")
				var lte localTransportError
				if err == nil || !errors.As(err, &lte) || lte.code != errProtocolViolation {
					return fmt.Errorf("%s: ACK range [%d,%d) in %v names %s (next number %d, tracked from %d) but receiveAckRange returned %v, want PROTOCOL_VIOLATION",
						step, rg[0], rg[1], sp, wantErr, next, listStart, err)
				}
			} else if err != nil {
				if final {
					return fmt.Errorf("%s: final ACK range [%d,%d) in %v names only sent packets but was refused: %v; outstanding packets get no fate", step, rg[0], rg[1], sp, err)
				}
				r.Class("valid-ack-refused")
			}
		}
		ls.receiveAckEnd(now, nil, sp, delay, m.onFate)
		anyAck = true
		return nil
	}

	dropKeys := func() bool {
		var sp numberSpace
		switch {
		case !m.dead[initialSpace]:
			sp = initialSpace
		case !m.dead[handshakeSpace]:
			sp = handshakeSpace
			ls.confirmHandshake()
		default:
			return false
		}
		if m.outstanding(sp) > 0 {
			dropWithOuts = true
		}
		ls.discardKeys(now, nil, sp)
		for _, p := range m.pk[sp] {
			if !p.skipped && p.fate == c26None {
				p.fate = c26Discarded
			}
		}
		m.dead[sp] = true
		return true
	}

	for i, op := range c.Ops {
		if op.Dt > 0 {
			now = now.Add(time.Duration(op.Dt) * time.Microsecond)
		}
		step := fmt.Sprintf("step %d (%s)", i, op.K)
		// maybeSend skips a number directly after recording the packet before it.
		prevAppSend := lastAppSend
		lastAppSend = false
		sp := numberSpace(op.Sp)
		if sp >= numberSpaceCount {
			return fmt.Errorf("harness: bad space %d", op.Sp)
		}
		switch op.K {
		case "send":
			if m.dead[sp] {
				r.Class("op-skipped:send-dead-space")
				continue
			}
			n := op.N
			if n < 1 {
				n = 1
			}
			for j := 0; j < n; j++ {
				limit, _ := ls.sendLimit(now)
				if limit == ccBlocked {
					r.Class("send-blocked-antiamp")
					break
				}
				ae, inf := op.AE, op.AE || op.IF
				if limit != ccOK {
					// Congestion or pacing limited: the writer adds nothing but an ACK frame.
					if inf {
						r.Class("send-ack-only-limited")
					}
					ae, inf = false, false
				}
				size := op.Size
				if ms := ls.maxSendSize(); size > ms {
					size = ms
				}
				if size < 1 {
					size = 1
				}
				num := ls.nextNumber(sp)
				if int64(num) != int64(len(m.pk[sp])) {
					return fmt.Errorf("harness: %v next number %d, model %d", sp, num, len(m.pk[sp]))
				}
				sent := newSentPacket()
				sent.num = num
				sent.size = size
				sent.ackEliciting = ae
				sent.inFlight = inf
				sent.ptype = [...]packetType{packetTypeInitial, packetTypeHandshake, packetType1RTT}[sp]
				m.pk[sp] = append(m.pk[sp], &c26Pkt{size: size, inFlight: inf})
				ls.packetSent(now, nil, sp, sent)
				switch {
				case ae:
					r.Class("sent:ack-eliciting")
				case inf:
					r.Class("sent:padding-only-in-flight")
				default:
					r.Class("sent:ack-only")
				}
				if sp != initialSpace {
					nonInitial = true
				}
				if sp == appDataSpace {
					lastAppSend = true
				}
				if err := check(fmt.Sprintf("%s packet %d", step, j)); err != nil {
					return err
				}
			}
		case "skip":
			if m.dead[appDataSpace] || !prevAppSend {
				r.Class("op-skipped:skip")
				continue
			}
			n := int64(ls.nextNumber(appDataSpace))
			ls.skipNumber(now, appDataSpace)
			m.pk[appDataSpace] = append(m.pk[appDataSpace], &c26Pkt{skipped: true})
			skipped[appDataSpace][n] = true
			r.Class("number-skipped")
		case "ack":
			if m.dead[sp] {
				r.Class("op-skipped:ack-dead-space")
				continue
			}
			ranges := c26Ranges(int64(len(m.pk[sp])), op.Back, op.Rng, skipped[sp], op.Skipped)
			if len(ranges) == 0 {
				r.Class("op-skipped:ack-empty")
				continue
			}
			if err := ack(step, sp, ranges, time.Duration(op.Delay)*time.Microsecond, false); err != nil {
				return err
			}
		case "adv":
			ls.advance(now, m.onFate)
		case "timer":
			if ls.timer.IsZero() {
				r.Class("op-skipped:timer-unset")
				continue
			}
			if ls.timer.After(now) {
				now = ls.timer
			}
			ls.advance(now, m.onFate)
			r.Class("timer-fired")
		case "recv":
			size := op.Size
			if size < 1 {
				size = 1
			}
			ls.datagramReceived(now, size)
		case "retry":
			if c.Server || retried || anyAck || nonInitial || m.dead[initialSpace] {
				r.Class("op-skipped")
				continue
			}
			retried = true
			if m.outstanding(initialSpace) > 0 {
				r.Class("retry-discards-packets")
			}
			ls.discardPackets(initialSpace, nil, m.onFate)
		case "dropkeys":
			if !dropKeys() {
				r.Class("op-skipped")
				continue
			}
		case "validate":
			if !c.Server {
				r.Class("op-skipped")
				continue
			}
			ls.validateClientAddress()
		case "maxackdelay":
			ls.setMaxAckDelay(time.Duration(op.Delay) * time.Millisecond)
		case "util":
			ls.cc.setUnderutilized(nil, op.V)
		default:
			return fmt.Errorf("harness: unknown op %q", op.K)
		}
		if err := check(step); err != nil {
			return err
		}
	}

	// Final step: discard some keys, acknowledge everything else.
	if c.FinalDt > 0 {
		now = now.Add(time.Duration(c.FinalDt) * time.Microsecond)
	}
	for i := 0; i < c.FinalDrop; i++ {
		dropKeys()
		if err := check("final key discard"); err != nil {
			return err
		}
	}
	for sp := numberSpace(0); sp < numberSpaceCount; sp++ {
		if m.dead[sp] || len(m.pk[sp]) == 0 {
			continue
		}
		next := int64(len(m.pk[sp]))
		ranges := c26Ranges(next, 0, [][2]int64{{next, 1}}, skipped[sp], false)
		if len(ranges) == 0 {
			continue
		}
		step := fmt.Sprintf("final ack of %v", sp)
		if err := ack(step, sp, ranges, 0, true); err != nil {
			return err
		}
		if err := check(step); err != nil {
			return err
		}
	}
	for sp := range m.pk {
		for n, p := range m.pk[sp] {
			if !p.skipped && p.fate == c26None {
				return fmt.Errorf("after acknowledging or discarding everything, %v packet %d (size %d, inFlight %v) has no fate", numberSpace(sp), n, p.size, p.inFlight)
			}
		}
	}
	if ls.cc.bytesInFlight != 0 {
		return fmt.Errorf("after acknowledging or discarding everything, bytesInFlight = %d", ls.cc.bytesInFlight)
	}

	if m.sawLoss {
		r.Class("loss-declared")
	}
	if lateAck {
		r.Class("late-ack-of-lost")
		r.NonTrivial()
	}
	if dropWithOuts {
		r.Class("keys-dropped-with-outstanding")
		r.NonTrivial()
	}
	if ls.cc.congestionWindow == minWindow {
		r.Class("window-at-minimum")
	}
	if c.Server {
		r.Class("server")
	} else {
		r.Class("client")
	}
	return nil
}

func c26Prop(c c26Case, r *vp.Rec) error { return c26Run(c, r) }

// ---- generator -------------------------------------------------------------------------

func c26Pct(t *rapid.T, label string) int {
	// rapid's small-range integers are heavily biased to small values; two bytes
	// modulo 100 are close to uniform.
	return (int(rapid.Byte().Draw(t, label+"_a"))*256 + int(rapid.Byte().Draw(t, label+"_b"))) % 100
}

func c26DtGen() *rapid.Generator[int64] {
	return rapid.Custom(func(t *rapid.T) int64 {
		switch c26Pct(t, "dtclass") / 10 {
		case 0, 1, 2, 3:
			return 0
		case 4:
			return rapid.Int64Range(1, 2000).Draw(t, "us") // below / around timer granularity
		case 5, 6:
			return rapid.Int64Range(1, 400).Draw(t, "ms") * 1000
		case 7, 8:
			return rapid.Int64Range(1, 5000).Draw(t, "ms") * 1000
		default:
			return rapid.Int64Range(1, 120).Draw(t, "s") * 1000000
		}
	})
}

// c26GenState lets the generator avoid operations the replay would have to skip
// (it is an approximation: sends suppressed by the anti-amplification limit are not
// tracked, the replay copes with that).
type c26GenState struct {
	server   bool
	sent     [3]int
	dead     [3]bool
	recvd    bool
	retried  bool
	acked    bool
	lastSend int // space of the previous op if it was a send, else -1
}

func (st *c26GenState) alive(t *rapid.T, needSent bool) int {
	var cand []int
	for sp := 0; sp < 3; sp++ {
		if !st.dead[sp] && (!needSent || st.sent[sp] > 0) {
			cand = append(cand, sp)
		}
	}
	if len(cand) == 0 {
		return 2
	}
	return cand[int(rapid.Byte().Draw(t, "sp"))%len(cand)]
}

func (st *c26GenState) op(t *rapid.T) c26Op {
	op := c26Op{Dt: c26DtGen().Draw(t, "dt")}
	k := c26Pct(t, "kind")
	if st.server && !st.recvd && k < 70 {
		k = 88 // recv first, or the server may not send
	}
	lastSend := st.lastSend
	st.lastSend = -1
	if !st.server && !st.retried && !st.acked && st.sent[0] > 0 && st.sent[1]+st.sent[2] == 0 && !st.dead[0] && k%8 == 0 {
		st.retried = true
		op.K = "retry"
		return op
	}
	switch {
	case k < 38:
		op.K = "send"
		op.Sp = st.alive(t, false)
		op.Size = vp.BiasedInt(1, 1500, 1, 128, 1200, 1500).Draw(t, "size")
		op.N = 1 + int(rapid.Byte().Draw(t, "burst"))%8
		switch int(rapid.Byte().Draw(t, "flags")) % 8 {
		case 0:
		case 1:
			op.IF = true
		default:
			op.AE, op.IF = true, true
		}
		st.sent[op.Sp] += op.N
		st.lastSend = op.Sp
	case k < 66:
		op.K = "ack"
		op.Sp = st.alive(t, true)
		shape := c26Pct(t, "shape")
		switch {
		case shape < 30: // newest few only: provokes packet-threshold loss
			op.Back = 0
			op.Rng = [][2]int64{{rapid.Int64Range(1, 3).Draw(t, "len"), 1}}
		case shape < 40: // everything so far: late acks of packets already lost
			op.Back = 0
			op.Rng = [][2]int64{{1000, 1}}
		case shape < 48: // beyond the largest sent number
			op.Back = -rapid.Int64Range(1, 3).Draw(t, "over")
			op.Rng = [][2]int64{{rapid.Int64Range(1, 8).Draw(t, "len"), 1}}
		default:
			op.Back = rapid.Int64Range(0, 12).Draw(t, "back")
			op.Rng = rapid.SliceOfN(rapid.Custom(func(t *rapid.T) [2]int64 {
				return [2]int64{rapid.Int64Range(1, 8).Draw(t, "len"), rapid.Int64Range(1, 6).Draw(t, "gap")}
			}), 1, 6).Draw(t, "rng")
		}
		op.Skipped = int(rapid.Byte().Draw(t, "keepSkipped"))%8 == 0
		switch int(rapid.Byte().Draw(t, "delayclass")) % 4 {
		case 0:
		case 1:
			op.Delay = rapid.Int64Range(0, 30000).Draw(t, "delay")
		case 2:
			op.Delay = rapid.Int64Range(0, 20000000).Draw(t, "delay")
		default:
			op.Delay = rapid.Int64Range(0, 1<<53).Draw(t, "delay")
		}
		st.acked = true
	case k < 76:
		op.K = "timer"
	case k < 80:
		op.K = "adv"
	case k < 86:
		if lastSend == 2 {
			op.K = "skip"
		} else {
			op.K = "adv"
		}
	case k < 91:
		op.K = "recv"
		op.Size = vp.BiasedInt(1, 1500, 1, 42, 1200).Draw(t, "size")
		st.recvd = true
	case k < 94:
		op.K = "dropkeys"
		if !st.dead[0] {
			st.dead[0] = true
		} else {
			st.dead[1] = true
		}
	case k < 96:
		if !st.server && !st.retried && !st.acked && st.sent[1]+st.sent[2] == 0 && !st.dead[0] {
			op.K = "retry"
			st.retried = true
		} else {
			op.K = "timer"
		}
	case k < 97:
		if st.server {
			op.K = "validate"
			st.recvd = true
		} else {
			op.K = "adv"
		}
	case k < 98:
		op.K = "maxackdelay"
		op.Delay = int64(vp.BiasedInt(0, 20000, 0, 25, 1<<14).Draw(t, "mad"))
	default:
		op.K = "util"
		op.V = rapid.Bool().Draw(t, "v")
	}
	return op
}

func c26Gen(t *rapid.T) c26Case {
	c := c26Case{
		Server: rapid.Bool().Draw(t, "server"),
		MDS:    rapid.SampledFrom([]int{1200, 1252, 1472, 1500, 9000}).Draw(t, "mds"),
	}
	st := &c26GenState{server: c.Server, lastSend: -1}
	minOps := 1 + c26Pct(t, "minOps")*45/100
	c.Ops = rapid.SliceOfN(rapid.Custom(st.op), minOps, 120).Draw(t, "ops")
	c.FinalDrop = rapid.IntRange(0, 2).Draw(t, "finalDrop")
	c.FinalDt = c26DtGen().Draw(t, "finalDt")
	return c
}

func TestVP_C26(t *testing.T) {
	vp.Run(t, vp.Spec[c26Case]{ID: "C26", Gen: c26Gen, Prop: c26Prop})
}
