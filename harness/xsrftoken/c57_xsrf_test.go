package xsrftoken

import (
	"bytes"
	"crypto/sha1"
	"fmt"
	"testing"
	"time"

	"pgregory.net/rapid"
	"verif/vp"
)

// C57: XSRF tokens are bound to key, user, action and time window.
//
// Oracle (white-box generateTokenAtTime / validTokenAtTime, all times explicit):
//   issue = t rounded up to the millisecond
//   valid(tok, key', user', action', check, timeout)
//       <=> (key',user',action') == (key,user,action)
//           and issue - 1min <= check < issue + timeout

type c57Case struct {
	Key    []byte `json:"key"`
	User   []byte `json:"user"`
	Action []byte `json:"action"`
	// second tuple, the one presented at validation
	Key2      []byte   `json:"key2"`
	User2     []byte   `json:"user2"`
	Action2   []byte   `json:"action2"`
	IssueNs   int64    `json:"issue_ns"`            // t, nanoseconds since the epoch (>= 0)
	TimeoutNs int64    `json:"timeout_ns"`          // may be zero or negative
	Checks    []int64  `json:"checks"`              // absolute check times, ns
	Malformed []string `json:"malformed,omitempty"` // token strings that were not generated (statistics only)
}

const c57Minute = int64(time.Minute)

func c57CeilMs(ns int64) int64 { // ns >= 0
	ms := ns / 1e6
	if ns%1e6 != 0 {
		ms++
	}
	return ms
}

// c57NormKey is the key as HMAC (RFC 2104) uses it with a 64-byte block: keys longer
// than the block are hashed, shorter keys are padded with zero bytes.
func c57NormKey(k []byte) []byte {
	if len(k) > 64 {
		h := sha1.Sum(k)
		k = h[:]
	}
	return bytes.TrimRight(k, "\x00")
}

func c57Known(c c57Case) string {
	if !bytes.Equal(c.Key, c.Key2) && bytes.Equal(c57NormKey(c.Key), c57NormKey(c.Key2)) {
		return "c57-hmac-key-zero-padding"
	}
	return ""
}

var c57Pieces = []string{":", ":", "_", "_", "c", "_c", "__", "_:", ":_", "a", "b", "0", "1", "é", "\x00", " ", "/path", "user", ":1", "\xff"}

func c57StrGen() *rapid.Generator[[]byte] {
	return rapid.Custom(func(t *rapid.T) []byte {
		ps := rapid.SliceOfN(rapid.SampledFrom(c57Pieces), 0, 6).Draw(t, "pieces")
		var b []byte
		for _, p := range ps {
			b = append(b, p...)
		}
		return b
	})
}

func c57Clone(b []byte) []byte { return append([]byte{}, b...) }

func c57ReplaceNth(s []byte, old, new string, n int) []byte {
	idx := -1
	off := 0
	for i := 0; i <= n; i++ {
		j := bytes.Index(s[off:], []byte(old))
		if j < 0 {
			return c57Clone(s)
		}
		idx = off + j
		off = idx + 1
	}
	out := append([]byte{}, s[:idx]...)
	out = append(out, new...)
	return append(out, s[idx+len(old):]...)
}

func c57Gen(t *rapid.T) c57Case {
	var c c57Case
	c.Key = rapid.SliceOfN(rapid.Byte(), 1, 80).Draw(t, "key")
	c.User = c57StrGen().Draw(t, "user")
	c.Action = c57StrGen().Draw(t, "action")
	c.Key2, c.User2, c.Action2 = c57Clone(c.Key), c57Clone(c.User), c57Clone(c.Action)

	switch mode := rapid.IntRange(0, 11).Draw(t, "mode"); mode {
	case 0, 1: // same triple
	case 2: // key changed
		switch rapid.IntRange(0, 4).Draw(t, "how") {
		case 0:
			i := rapid.IntRange(0, len(c.Key2)-1).Draw(t, "i")
			c.Key2[i] ^= 1 << rapid.IntRange(0, 7).Draw(t, "bit")
		case 1:
			c.Key2 = append(c.Key2, rapid.Byte().Draw(t, "b"))
		case 2:
			if len(c.Key2) > 1 {
				c.Key2 = c.Key2[:len(c.Key2)-1]
			}
		case 3:
			c.Key2 = append(c.Key2, 0) // HMAC zero padding
		case 4:
			c.Key2 = rapid.SliceOfN(rapid.Byte(), 1, 80).Draw(t, "key2")
		}
	case 3: // user changed
		c.User2 = c57StrGen().Draw(t, "user2")
	case 4: // action changed
		c.Action2 = c57StrGen().Draw(t, "action2")
	case 5, 6: // same naive "user:action" join, split at another ':'
		j := append(append(c57Clone(c.User), ':'), c.Action...)
		var cols []int
		for i, b := range j {
			if b == ':' {
				cols = append(cols, i)
			}
		}
		i := rapid.SampledFrom(cols).Draw(t, "split")
		c.User2, c.Action2 = c57Clone(j[:i]), c57Clone(j[i+1:])
	case 7, 8: // escape look-alikes: one occurrence of an escaped form replaced by its source or vice versa
		pairs := [][2]string{{":", "_c"}, {"_c", ":"}, {"_", "__"}, {"__", "_"}, {":", "_"}, {"_", ":"}, {"_c", "__c"}, {"__c", "_c"}, {":", "::"}, {"c", "_c"}}
		p := rapid.SampledFrom(pairs).Draw(t, "pair")
		n := rapid.IntRange(0, 2).Draw(t, "nth")
		if rapid.Bool().Draw(t, "inUser") {
			c.User2 = c57ReplaceNth(c.User, p[0], p[1], n)
		} else {
			c.Action2 = c57ReplaceNth(c.Action, p[0], p[1], n)
		}
	case 9: // swapped
		c.User2, c.Action2 = c57Clone(c.Action), c57Clone(c.User)
	case 10: // a trailing piece moved across the boundary, or the separator absorbed
		switch rapid.IntRange(0, 3).Draw(t, "how") {
		case 0:
			c.User2 = append(c57Clone(c.User), ':')
		case 1:
			c.Action2 = append([]byte{':'}, c.Action...)
		case 2:
			c.User2, c.Action2 = append(append(c57Clone(c.User), "_c"...), c.Action...), nil
		case 3:
			c.User2, c.Action2 = nil, append(append(c57Clone(c.User), "_c"...), c.Action...)
		}
	case 11: // independent
		c.User2 = c57StrGen().Draw(t, "user2")
		c.Action2 = c57StrGen().Draw(t, "action2")
	}

	// issue time with a sub-millisecond part
	ms := rapid.OneOf(
		rapid.Int64Range(0, 4_000_000_000_000),                 // 1970 .. 2096
		rapid.Int64Range(1_700_000_000_000, 1_800_000_000_000), // around now
		rapid.Int64Range(0, 100),
	).Draw(t, "ms")
	sub := rapid.OneOf(rapid.SampledFrom([]int64{0, 0, 1, 2, 499_999, 500_000, 999_998, 999_999}), rapid.Int64Range(0, 999_999)).Draw(t, "sub")
	c.IssueNs = ms*1e6 + sub

	c.TimeoutNs = rapid.OneOf(
		rapid.SampledFrom([]int64{1, 999_999, 1_000_000, 1_000_001, int64(time.Second), 59 * int64(time.Second), c57Minute, 61 * int64(time.Second),
			int64(time.Hour), 24 * int64(time.Hour), 30 * 24 * int64(time.Hour), 0, -1, -int64(time.Second), -c57Minute + 1, -c57Minute, -2 * c57Minute}),
		rapid.Int64Range(1, int64(400*24*time.Hour)),
		rapid.Int64Range(1, int64(10*time.Second)),
	).Draw(t, "timeout")

	issue := c57CeilMs(c.IssueNs) * 1e6
	edge := rapid.Custom(func(t *rapid.T) int64 {
		base := rapid.SampledFrom([]int64{issue - c57Minute, issue, issue + c.TimeoutNs, c.IssueNs}).Draw(t, "base")
		d := rapid.SampledFrom([]int64{-int64(time.Second), -1_000_001, -1_000_000, -999_999, -1, 0, 1, 999_999, 1_000_000, 1_000_001, int64(time.Second)}).Draw(t, "d")
		return base + d
	})
	span := c.TimeoutNs
	if span < 0 {
		span = -span
	}
	span += 2 * c57Minute
	anywhere := rapid.Custom(func(t *rapid.T) int64 {
		return issue + rapid.Int64Range(-2*span, 2*span).Draw(t, "off")
	})
	c.Checks = rapid.SliceOfN(rapid.OneOf(edge, edge, anywhere), 1, 6).Draw(t, "checks")

	if rapid.IntRange(0, 3).Draw(t, "withMalformed") == 0 {
		c.Malformed = rapid.SliceOfN(rapid.SampledFrom([]string{
			"", ":", "abc", "abc:", ":1", "abc:xyz", "abc:1:2", "abc:-1", "abc:+1", "abc:9223372036854775807", "abc:9223372036854775808",
			"abc:99999999999999999999999", "abc: 1", "abc:1 ", "abc:0x10", "abc:1e3", "abc:١٢٣", "::", "a:b:c:", "\x00:\x00",
		}), 1, 3).Draw(t, "malformed")
	}
	return c
}

func c57CommonPrefix(a, b string) int {
	n := 0
	for n < len(a) && n < len(b) && a[n] == b[n] {
		n++
	}
	return n
}

// c57NaiveClean is an independent rendering of the documented escaping ("_" -> "__",
// ":" -> "_c"), used only to classify cases, never for the verdict.
func c57NaiveClean(s []byte) string {
	var b []byte
	for _, ch := range s {
		switch ch {
		case '_':
			b = append(b, "__"...)
		case ':':
			b = append(b, "_c"...)
		default:
			b = append(b, ch)
		}
	}
	return string(b)
}

func c57Prop(c c57Case, r *vp.Rec) error {
	if len(c.Key) == 0 || len(c.Key2) == 0 || c.IssueNs < 0 {
		r.Discard("empty key or pre-epoch issue time")
		return nil
	}
	key, user, action := string(c.Key), string(c.User), string(c.Action)
	key2, user2, action2 := string(c.Key2), string(c.User2), string(c.Action2)
	tok := generateTokenAtTime(key, user, action, time.Unix(0, c.IssueNs))
	issue := c57CeilMs(c.IssueNs) * 1e6
	timeout := time.Duration(c.TimeoutNs)
	same := key == key2 && user == user2 && action == action2

	// the token generated at the rounded-up instant must be the same token
	if tok2 := generateTokenAtTime(key, user, action, time.Unix(0, issue)); tok2 != tok {
		return fmt.Errorf("token for t=%dns (%q) differs from the token for t rounded up to the millisecond, %dns (%q)", c.IssueNs, tok, issue, tok2)
	}

	nearEdge := false
	for _, chk := range c.Checks {
		now := time.Unix(0, chk)
		inWindow := issue-c57Minute <= chk && chk-issue < c.TimeoutNs
		// (1) the generating triple: valid exactly inside the window
		got := validTokenAtTime(tok, key, user, action, now, timeout)
		if got != inWindow {
			return fmt.Errorf("token issued at t=%dns (issue time %dns) for (key=%q,user=%q,action=%q): valid=%v at check=%dns (issue%+dns) with timeout %v; want %v (window is [issue-1m, issue+timeout))",
				c.IssueNs, issue, key, user, action, got, chk, chk-issue, timeout, inWindow)
		}
		// (2) the presented triple
		got2 := validTokenAtTime(tok, key2, user2, action2, now, timeout)
		want2 := same && inWindow
		if got2 != want2 {
			return fmt.Errorf("token for (key=%q,user=%q,action=%q) presented with (key=%q,user=%q,action=%q) at check=issue%+dns timeout %v: valid=%v, want %v",
				key, user, action, key2, user2, action2, chk-issue, timeout, got2, want2)
		}
		if inWindow {
			r.Class("check:in-window")
		} else if chk < issue-c57Minute {
			r.Class("check:too-early")
		} else {
			r.Class("check:expired")
		}
		for _, e := range []int64{issue - c57Minute, issue + c.TimeoutNs} {
			if d := chk - e; d >= -1e6 && d <= 1e6 {
				nearEdge = true
			}
		}
	}
	if nearEdge {
		r.Class("check:within-1ms-of-an-edge")
		r.NonTrivial()
	}
	if c.IssueNs%1e6 != 0 {
		r.Class("issue:sub-millisecond")
	}
	switch {
	case c.TimeoutNs <= 0:
		r.Class("timeout:non-positive")
	case c.TimeoutNs < 1e6:
		r.Class("timeout:<1ms")
	}
	switch {
	case same:
		r.Class("tuple:same")
	case key != key2:
		r.Class("tuple:other-key")
	default:
		if user != user2 {
			r.Class("tuple:other-user")
		}
		if action != action2 {
			r.Class("tuple:other-action")
		}
		if user+":"+action == user2+":"+action2 {
			r.Class("tuple:same-naive-join")
			r.NonTrivial()
		}
		a, b := c57NaiveClean(c.User)+":"+c57NaiveClean(c.Action), c57NaiveClean(c.User2)+":"+c57NaiveClean(c.Action2)
		if p := c57CommonPrefix(a, b); p >= 3 && p*2 >= len(a) {
			r.Class("tuple:cleaned-joins-share-long-prefix")
			r.NonTrivial()
		}
		// would collide if ':' were escaped before '_' (the order matters)
		wrong := func(u, ac []byte) string {
			f := func(s []byte) string {
				x := bytes.ReplaceAll(s, []byte(":"), []byte("_c"))
				return string(bytes.ReplaceAll(x, []byte("_"), []byte("__")))
			}
			return f(u) + ":" + f(ac)
		}
		if wrong(c.User, c.Action) == wrong(c.User2, c.Action2) {
			r.Class("tuple:collides-under-wrong-escape-order")
		}
	}
	// The public entry points take the time from the wall clock. They are exercised
	// with margins of an hour and more, so the few microseconds that pass between the
	// calls cannot change a verdict.
	tokNow := Generate(key, user, action)
	switch {
	case !Valid(tokNow, key, user, action):
		return fmt.Errorf("Valid rejects the token Generate just returned for (key=%q,user=%q,action=%q)", key, user, action)
	case !ValidFor(tokNow, key, user, action, time.Hour):
		return fmt.Errorf("ValidFor(1h) rejects the token Generate just returned for (key=%q,user=%q,action=%q)", key, user, action)
	case ValidFor(tokNow, key, user, action, -time.Hour):
		return fmt.Errorf("ValidFor(-1h) accepts a token although issue time + timeout lies an hour in the past (key=%q,user=%q,action=%q)", key, user, action)
	case Valid(tokNow, key2, user2, action2) != same:
		return fmt.Errorf("token Generate returned for (key=%q,user=%q,action=%q) presented to Valid with (key=%q,user=%q,action=%q): valid=%v", key, user, action, key2, user2, action2, !same)
	}
	old := generateTokenAtTime(key, user, action, time.Now().Add(-48*time.Hour))
	if Valid(old, key, user, action) {
		return fmt.Errorf("Valid accepts a token issued 48 hours ago (Timeout is %v)", Timeout)
	}
	if !ValidFor(old, key, user, action, 72*time.Hour) {
		return fmt.Errorf("ValidFor(72h) rejects a token issued 48 hours ago")
	}
	r.Class("wall-clock entry points checked")
	// statistics only: strings that were never generated as tokens
	for _, m := range c.Malformed {
		for _, chk := range c.Checks {
			if validTokenAtTime(m, key, user, action, time.Unix(0, chk), timeout) {
				r.Class("malformed:ACCEPTED(not a verdict)")
			} else {
				r.Class("malformed:rejected")
			}
		}
	}
	return nil
}

func TestVP_C57(t *testing.T) {
	vp.Run(t, vp.Spec[c57Case]{ID: "C57", Gen: c57Gen, Prop: c57Prop, Known: c57Known,
		Sample: func(c c57Case) any {
			return fmt.Sprintf("key=%q user=%q action=%q | key2=%q user2=%q action2=%q | issue=%dns timeout=%v checks(rel. issue-ceil)=%v",
				c.Key, c.User, c.Action, c.Key2, c.User2, c.Action2, c.IssueNs, time.Duration(c.TimeoutNs), func() []int64 {
					var o []int64
					for _, x := range c.Checks {
						o = append(o, x-c57CeilMs(c.IssueNs)*1e6)
					}
					return o
				}())
		}})
}
