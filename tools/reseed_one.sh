#!/bin/bash
# re-runs the quick check of one kept seeded change against the current harness (no evidence
# is written: VP_REPO run); prints "<name> caught|MISSED|noapply|inconclusive"
name=$1
d=/verif/seeded/$name
id=$(jq -r .property $d/meta.json)
wt=/tmp/wt/rs-$name
git -C /repo worktree remove --force $wt >/dev/null 2>&1
git -C /repo worktree add -q --detach $wt HEAD || { echo "$name worktree-failed"; exit 0; }
res=noapply
if git -C $wt apply $d/patch.diff 2>/dev/null; then
  res=MISSED
  for seed in 1 2 3; do
    VP_REPO=$wt VERIF_SEED=$seed /verif/check $id >/dev/null 2>&1
    rc=$?
    if [ $rc = 1 ]; then res="caught(seed$seed)"; break; fi
    if [ $rc = 2 ]; then res=inconclusive; fi
  done
fi
git -C /repo worktree remove --force $wt >/dev/null 2>&1
h=$(echo -n $wt | sha1sum | cut -c1-8)
rm -rf /verif/work/alt.$h /verif/build/bin/*.$h.* /verif/build/overlay.*.$h.json 2>/dev/null
echo "$name $res"
