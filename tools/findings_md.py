#!/usr/bin/env python3
"""Prints the findings tables for DESIGN.md section 9 from KNOWN_FINDINGS.json."""
import json
k=json.load(open('/verif/KNOWN_FINDINGS.json'))
fs=sorted(k['findings'],key=lambda f:(f['property'],f['key']))
def cell(s): return str(s).replace('|','\\|').replace('\n',' ')
print("| Prop | Key | Repaired by | What failed (minimal case in `regress/`) |")
print("|---|---|---|---|")
for f in fs:
    if f['status']=='fixed':
        print("| %s | `%s` | %s | %s |"%(f['property'],f['key'],f.get('commit',''),cell(f.get('what',''))))
print()
print("| Prop | Key | What fails | Why recorded rather than repaired |")
print("|---|---|---|---|")
for f in fs:
    if f['status']!='fixed':
        print("| %s | `%s` | %s | %s |"%(f['property'],f['key'],cell(f.get('what','')),cell(f.get('why_open',''))))
