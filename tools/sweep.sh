#!/bin/bash
# usage: tools/sweep.sh "seeds" ids...   -> prints one line per (id, seed)
seeds="$1"; shift
for id in "$@"; do for s in $seeds; do
  t0=$(date +%s)
  out=$(VERIF_SEED=$s ./check $id 2>/dev/null | grep -v "^KNOWN-FINDING" | tail -1)
  rc=$?
  echo "$id seed=$s $(( $(date +%s)-t0 ))s :: $out"
done; done
