#!/bin/bash
for id in "$@"; do
  t0=$(date +%s)
  out=$(./check $id --tier thorough 2>work-err-$id.txt | grep -v "^KNOWN-FINDING" | tail -1)
  echo "$id $(( $(date +%s)-t0 ))s $out"
  if ! echo "$out" | grep -q "^OK"; then tail -5 work-err-$id.txt; fi
  rm -f work-err-$id.txt
done
