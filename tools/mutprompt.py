#!/usr/bin/env python3
"""Prints the prompt for an independent mutant-writing agent: mutprompt.py NAME ID..."""
import json,sys,os
name=sys.argv[1]; ids=sys.argv[2:]
props={}
for l in open('/verif/properties.jsonl'):
    l=l.strip()
    if l:
        r=json.loads(l); props[r['id']]=r
COUNT=os.environ.get('MUT_COUNT') or '2 different changes if you can (at least 1)'
EXTRA=os.environ.get('MUT_EXTRA') or ''
out=[]
out.append(f"""You are a careful Go engineer helping to evaluate a verification effort for the Go module golang.org/x/net (offline sandbox, no network). Your job: for each property listed below, produce realistic *defect-introducing changes* ("seeded bugs") to golang/net that BREAK the property while the code still compiles and the module's existing test suite still passes — plus a small demonstration (a Go test file or tiny program) that FAILS with your change and PASSES without it.

Rules:
- Work ONLY in your own scratch git worktree. Create it with: git -C /repo worktree add /tmp/mut/{name} HEAD   (then work in /tmp/mut/{name}). Never edit /repo itself. Do NOT read or use anything under /verif (that is the system being evaluated; your changes must be independent of it). Do not look at other /tmp/mut/* or /tmp/wt/* directories.
- Go environment for every command: run inside your worktree with env GOFLAGS=-mod=mod GOPROXY=off (do not set GOSUMDB). Example: cd /tmp/mut/{name} && GOFLAGS=-mod=mod GOPROXY=off go test ./quic/
- For each property produce {COUNT}. Prefer changes that need something specific to manifest — a particular interleaving or timing, a fault at a particular point, a multi-step sequence of operations, an unusual/boundary input, or two cooperating sites that each look fine alone — NOT ones that ordinary use (and therefore the existing tests) would expose at once. They should look like plausible programmer mistakes (off-by-one at a boundary, a missed case, a wrong variable, a dropped update on a rare path), small (1–15 lines), and must clearly violate the property statement as written (not merely change unspecified behaviour).
- Each change must: (1) compile (go build ./... && go vet of the touched package); (2) keep the existing tests of the touched package(s) and of packages that import them passing (run go test for those packages; e.g. for http2/hpack also run ./http2/; tests are sometimes slow/flaky under machine load: re-run once before concluding); (3) be demonstrated: write the demonstration as a _test.go file placed in the relevant package directory of your worktree (it may be an in-package white-box test) named zz_seed_<ID>_<n>_test.go with a single test function TestSeed_<ID>_<n>; show that it FAILS with the change and PASSES on the unchanged code (do NOT use `git stash` — the stash is shared by all worktrees of /repo and other agents use it too; compare with `git diff > /tmp/mut/<you>/p.diff; git apply -R p.diff; ...; git apply p.diff`).
- Deliverables, for each change n of property ID: directory /tmp/mut/{name}/out/<ID>-<n>/ containing: patch.diff (output of `git diff -- <changed non-test files>` relative to HEAD, applies with `git apply`), the demonstration test file (copy), and meta.json with fields: property (ID), title (one line), breaks (which clause of the statement it violates and why), needs (what specific input/sequence/interleaving/fault is needed for it to manifest), files (changed files), demo (path of the test file relative to repo root, and the `go test` command to run it), existing_tests (the commands you ran and that they passed). After collecting a change, revert the source edit (git checkout -- <files>) and remove the demo test from the package dir before starting the next one, so changes are independent.
- When finished, leave the worktree in place and reply with a short list: for each <ID>-<n> one line (what was changed, what is needed to trigger). If you could not break a property without failing existing tests, say so and why.

{EXTRA}Properties (each is a semantic property the library is supposed to satisfy; "anchors" name the code involved):
""")
for i in ids:
    r=props[i]
    out.append(f"## {i}: {r['title']}\nStatement: {r['statement']}\nQuantified over: {r['quantifier']['text']}\nCode anchors: files {', '.join(r['anchors']['files'])}; mechanisms: " + "; ".join(m.get('name','')+' ('+m.get('where','')+')' for m in r['anchors'].get('mechanism',[])) + "\n")
print("\n".join(out))
