#!/usr/bin/env python3
"""Confirms an independently written seeded change and runs the property's check against it.

usage: seedcheck.py SRC_DIR [--keep-as NAME] [--thorough] [--seeds "1 2"]

SRC_DIR holds patch.diff, meta.json and one zz_seed_*_test.go demonstration (as produced by
the mutant-writing agents). Steps, all in a private scratch worktree of /repo HEAD under
/tmp/wt (never /repo itself):
  1. demo passes on the unchanged tree;
  2. patch applies, builds, demo FAILS with it;
  3. the existing tests of the touched packages still pass with it;
  4. `VP_REPO=<scratch> ./check <ID>` (quick, given seeds; then thorough if asked and missed).
The verdicts are written to /verif/seeded/<NAME>/meta.json next to copies of the patch and demo.
"""
import argparse, glob, json, os, re, shutil, subprocess, sys, time

VERIF = os.path.dirname(os.path.dirname(os.path.abspath(__file__)))
ENV = dict(os.environ, GOFLAGS="-mod=mod", GOPROXY="off")
ENV.pop("GOSUMDB", None)


def sh(cmd, cwd, timeout=1800, env=None):
    p = subprocess.run(cmd, cwd=cwd, shell=True, env=env or ENV, stdout=subprocess.PIPE, stderr=subprocess.STDOUT, text=True, timeout=timeout)
    return p.returncode, p.stdout


def main():
    ap = argparse.ArgumentParser()
    ap.add_argument("src")
    ap.add_argument("--keep-as")
    ap.add_argument("--thorough", action="store_true")
    ap.add_argument("--seeds", default="1")
    ap.add_argument("--wt", default=None)
    a = ap.parse_args()
    src = os.path.abspath(a.src)
    meta = json.load(open(os.path.join(src, "meta.json")))
    pid = meta["property"]
    name = a.keep_as or os.path.basename(src.rstrip("/"))
    demos = glob.glob(os.path.join(src, "*_test.go"))
    if len(demos) != 1:
        print("need exactly one demo test in", src); return 2
    demo = demos[0]
    patch = os.path.join(src, "patch.diff")
    ptxt = open(patch).read()
    files = re.findall(r"^\+\+\+ b/(\S+)", ptxt, re.M)
    pkgs = sorted(set(os.path.dirname(f) for f in files))
    # demo package dir: from meta.demo path if given, else the first touched package
    demo_rel = None
    d = meta.get("demo")
    dtext = json.dumps(d)
    m = re.search(r"([\w./-]+/)?(zz_seed_[\w]+_test\.go)", dtext)
    if m and m.group(1):
        demo_rel = os.path.join(m.group(1), os.path.basename(demo))
    else:
        demo_rel = os.path.join(pkgs[0], os.path.basename(demo))
    demo_pkg = os.path.dirname(demo_rel)
    testname = re.search(r"func (TestSeed_\w+)", open(demo).read()).group(1)

    wt = a.wt or "/tmp/wt/seed-%s" % name
    subprocess.run(["git", "-C", "/repo", "worktree", "remove", "--force", wt], stdout=subprocess.DEVNULL, stderr=subprocess.DEVNULL)
    subprocess.run(["git", "-C", "/repo", "worktree", "add", "-q", "--detach", wt, "HEAD"], check=True)
    res = {"property": pid, "name": name, "repo_head": subprocess.run(["git", "-C", "/repo", "rev-parse", "--short", "HEAD"], capture_output=True, text=True).stdout.strip()}
    try:
        shutil.copy(demo, os.path.join(wt, demo_rel))
        run_demo = "go test -count=1 -run '^%s$' ./%s/" % (testname, demo_pkg)
        rc, out = sh(run_demo, wt)
        res["demo_passes_unchanged"] = rc == 0
        if rc != 0:
            rc, out = sh(run_demo, wt)  # flake guard
            res["demo_passes_unchanged"] = rc == 0
        rc, out = sh("git apply " + patch, wt)
        if rc != 0:
            res["applies"] = False
            res["note"] = out[-500:]
            print(json.dumps(res, indent=1)); return finish(a, src, name, meta, res, patch, demo)
        res["applies"] = True
        rc, out = sh("go build ./... ", wt)
        res["builds"] = rc == 0
        rc, out = sh(run_demo, wt)
        res["demo_fails_with_patch"] = rc != 0
        os.remove(os.path.join(wt, demo_rel))
        # existing tests of touched packages (+ http2 for hpack/httpsfv/httpguts)
        tp = set(pkgs)
        for p in list(tp):
            if p.startswith("http2/hpack") or p.startswith("internal/httpsfv") or p.startswith("internal/httpcommon") or p.startswith("http/httpguts"):
                tp.add("http2")
            if p.startswith("internal/quic") :
                tp.add("quic")
            if p.startswith("internal/socks"):
                tp.add("proxy")
            if p.startswith("internal/timeseries"):
                tp.add("trace")
            if p.startswith("idna") or p.startswith("http/httpproxy"):
                tp.add("http/httpproxy")
        cmd = "go test -count=1 " + " ".join("./%s/" % p for p in sorted(tp))
        rc, out = sh(cmd, wt, timeout=3000)
        if rc != 0:
            rc, out = sh(cmd, wt, timeout=3000)
        res["existing_tests_pass"] = rc == 0
        res["existing_tests_cmd"] = cmd
        if rc != 0:
            res["existing_tests_output"] = out[-1500:]
        # our check
        runs = []
        caught = False
        for s in a.seeds.split():
            env = dict(os.environ, VP_REPO=wt, VERIF_SEED=s)
            t0 = time.time()
            p = subprocess.run([os.path.join(VERIF, "check"), pid], env=env, stdout=subprocess.PIPE, stderr=subprocess.PIPE, text=True)
            line = [l for l in p.stdout.splitlines() if l.startswith(("VIOLATION", "OK", "INCONCLUSIVE"))]
            msg = p.stderr.strip().splitlines()[-3:] if p.returncode == 1 else []
            runs.append({"tier": "quick", "seed": int(s), "rc": p.returncode, "wall_s": round(time.time() - t0, 1), "line": line[-1] if line else "", "detail": " | ".join(msg)[:600]})
            if p.returncode == 1:
                caught = True
                break
        if not caught and a.thorough:
            env = dict(os.environ, VP_REPO=wt, VERIF_SEED=a.seeds.split()[0])
            t0 = time.time()
            p = subprocess.run([os.path.join(VERIF, "check"), pid, "--tier", "thorough"], env=env, stdout=subprocess.PIPE, stderr=subprocess.PIPE, text=True)
            line = [l for l in p.stdout.splitlines() if l.startswith(("VIOLATION", "OK", "INCONCLUSIVE"))]
            msg = p.stderr.strip().splitlines()[-3:] if p.returncode == 1 else []
            runs.append({"tier": "thorough", "rc": p.returncode, "wall_s": round(time.time() - t0, 1), "line": line[-1] if line else "", "detail": " | ".join(msg)[:600]})
            caught = p.returncode == 1
        res["check_runs"] = runs
        res["caught"] = caught
    finally:
        subprocess.run(["git", "-C", "/repo", "worktree", "remove", "--force", wt], stdout=subprocess.DEVNULL, stderr=subprocess.DEVNULL)
        alt = os.path.join(VERIF, "work", "alt." + __import__("hashlib").sha1(wt.encode()).hexdigest()[:8])
        shutil.rmtree(alt, ignore_errors=True)
        for f in glob.glob(os.path.join(VERIF, "build", "bin", "*.%s*.test" % __import__("hashlib").sha1(wt.encode()).hexdigest()[:8])):
            os.remove(f)
    return finish(a, src, name, meta, res, patch, demo)


def finish(a, src, name, meta, res, patch, demo):
    valid = res.get("demo_passes_unchanged") and res.get("applies") and res.get("builds") and res.get("demo_fails_with_patch") and res.get("existing_tests_pass")
    res["valid_seed"] = bool(valid)
    print(json.dumps(res, indent=1))
    if valid:
        dst = os.path.join(VERIF, "seeded", name)
        os.makedirs(dst, exist_ok=True)
        shutil.copy(patch, os.path.join(dst, "patch.diff"))
        shutil.copy(demo, os.path.join(dst, os.path.basename(demo)))
        meta = dict(meta)
        meta["confirmed"] = res
        json.dump(meta, open(os.path.join(dst, "meta.json"), "w"), indent=1)
    return 0 if valid else 3


if __name__ == "__main__":
    sys.exit(main())
