#!/usr/bin/env python3
"""kf.py fix KEY COMMIT | kf.py drop KEY | kf.py list"""
import json,sys
p='/verif/KNOWN_FINDINGS.json'
k=json.load(open(p))
cmd=sys.argv[1]
if cmd=='list':
    for f in k['findings']: print(f['status'],f['property'],f['key'],f.get('commit',''))
elif cmd=='fix':
    key,commit=sys.argv[2],sys.argv[3]
    for f in k['findings']:
        if f['key']==key:
            f['status']='fixed'; f['commit']=commit
            f['line']='fixed: property=%s %s %s'%(f['property'],commit,f.get('what',key))
            print('fixed',key)
elif cmd=='drop':
    key=sys.argv[2]
    k['findings']=[f for f in k['findings'] if f['key']!=key]
json.dump(k,open(p,'w'),indent=1)
