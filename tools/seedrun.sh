#!/bin/bash
# usage: tools/seedrun.sh /tmp/mut/mX   -> confirms every out/<ID>-<n> and appends a summary line per seed
for d in "$1"/out/C*-*/; do
  n=$(basename "$d")
  if [ -n "$2" ]; then n=$(echo "$n" | sed "s/-/-$2/"); fi
  [ -f "$d/meta.json" ] || continue
  [ -f /verif/seeded/$n/meta.json ] && grep -q '"caught": true' /verif/seeded/$n/meta.json && continue
  out=$(python3 /verif/tools/seedcheck.py "$d" --keep-as "$n" --thorough --seeds "1 2" 2>&1)
  mkdir -p /verif/work/seedout; echo "$out" > /verif/work/seedout/$n.txt
  valid=$(echo "$out" | grep -o '"valid_seed": [a-z]*' | tail -1)
  caught=$(echo "$out" | grep -o '"caught": [a-z]*' | tail -1)
  echo "$n $valid $caught" >> /verif/work/seedrun.log
done
