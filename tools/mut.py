#!/usr/bin/env python3
"""Sensitivity helper: apply one textual mutation in a scratch worktree, run a check
against it (VP_REPO), revert. usage: mut.py WT PROP FILE OLD NEW [--checks N]
Exit status is the check's (1 = caught)."""
import os, subprocess, sys
wt, prop, f, old, new = sys.argv[1:6]
extra = sys.argv[6:]
p = os.path.join(wt, f)
s = open(p).read()
if s.count(old) != 1:
    print("mut.py: OLD occurs %d times in %s" % (s.count(old), f)); sys.exit(3)
open(p, "w").write(s.replace(old, new))
try:
    env = dict(os.environ, VP_REPO=wt)
    r = subprocess.run([os.path.join(os.path.dirname(os.path.dirname(os.path.abspath(__file__))), "check"), prop] + extra, env=env)
    print("mut.py: %s rc=%d (%s)" % (prop, r.returncode, "CAUGHT" if r.returncode == 1 else "MISSED" if r.returncode == 0 else "INCONCLUSIVE"))
    sys.exit(r.returncode)
finally:
    subprocess.run(["git", "-C", wt, "checkout", "--", f])
