#!/usr/bin/env python3
"""Prints the sensitivity table for DESIGN.md section 10 from /verif/seeded/*/meta.json."""
import json,glob,os,re
rows=[]
for d in sorted(glob.glob('/verif/seeded/C*-*')):
    try: m=json.load(open(os.path.join(d,'meta.json')))
    except Exception: continue
    c=m.get('confirmed',{})
    runs=c.get('check_runs',[])
    how=''
    for r in runs:
        if r.get('rc')==1:
            how='%s tier'%r['tier']+(', seed %s'%r['seed'] if 'seed' in r else '')
            det=r.get('detail','')
            det=det.split('|')[-1].strip() if det else ''
            how+=': '+re.sub(r'\s+',' ',det)[:140]
            break
    title=m.get('title') or m.get('breaks','')
    rows.append((m['property'],os.path.basename(d),re.sub(r'\s+',' ',str(title))[:150],re.sub(r'\s+',' ',str(m.get('needs','')))[:170],'caught' if c.get('caught') else 'MISSED',how,m.get('note','')))
def cell(s): return str(s).replace('|','\\|')
print("| Seed | What was changed | Needs to manifest | Verdict of `./check` | How |")
print("|---|---|---|---|---|")
for r in rows:
    print("| %s | %s | %s | %s | %s |"%(r[1],cell(r[2]),cell(r[3]),r[4],cell(r[5]+((' ('+r[6]+')') if r[6] else ''))))
import collections
n=len(rows); c=sum(1 for r in rows if r[4]=='caught')
print("\n%d confirmed seeded changes, %d caught, %d missed."%(n,c,n-c))
byp=collections.Counter(r[0] for r in rows)
print("Properties with at least one confirmed seed: %d of 61."%len(byp))
