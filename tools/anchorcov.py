#!/usr/bin/env python3
"""Statement coverage of a property's anchor files by its own check (diagnostic, not a check).

usage: anchorcov.py CNN [--checks N]

Builds the property's test binaries with -cover -coverpkg=<packages of the anchor files>, runs
the rapid tests once (quick tier, seed 1) with a cover profile and prints, per anchor file, the
functions the run never entered and the overall statement coverage. Used to find generator holes
(an anchor file that the check never reaches). Nothing is written under evidence/.
"""
import importlib.machinery, importlib.util, json, os, subprocess, sys, tempfile, shutil

loader = importlib.machinery.SourceFileLoader("vpcheck", "/verif/check")
spec = importlib.util.spec_from_loader("vpcheck", loader)
ck = importlib.util.module_from_spec(spec)
loader.exec_module(ck)


def main():
    pid = sys.argv[1]
    checks = None
    if "--checks" in sys.argv:
        checks = int(sys.argv[sys.argv.index("--checks") + 1])
    anchors = None
    for l in open("/verif/properties.jsonl"):
        l = l.strip()
        if l and json.loads(l)["id"] == pid:
            anchors = json.loads(l)["anchors"]["files"]
    prop = ck.load_prop(pid)
    pkgs = sorted(set("golang.org/x/net/" + os.path.dirname(f) for f in anchors))
    mf = ck.write_modfile()
    tmp = tempfile.mkdtemp(prefix="anchorcov.")
    profiles = []
    try:
        for ui, u in enumerate(ck.units_of(prop)):
            overlay = {"Replace": {}}
            for f in ck.harness_files(u):
                overlay["Replace"][os.path.join("/repo", u["pkg"], "zz_vp_" + os.path.basename(f))] = f
            ov = os.path.join(tmp, "ov%d.json" % ui)
            json.dump(overlay, open(ov, "w"))
            out = os.path.join(tmp, "cov%d.test" % ui)
            cmd = ["go", "test", "-c", "-vet=off", "-cover", "-coverpkg=" + ",".join(pkgs), "-o", out, "-modfile=" + mf, "-overlay=" + ov]
            if u.get("tags"):
                cmd.append("-tags=" + u["tags"])
            cmd.append("./" + u["pkg"] + "/")
            p = subprocess.run(cmd, cwd="/repo", env=ck.go_env(), stdout=subprocess.PIPE, stderr=subprocess.STDOUT, text=True)
            if p.returncode != 0:
                print("build failed:\n" + p.stdout[-3000:])
                return 2
            d = os.path.join(tmp, "run%d" % ui)
            os.makedirs(d)
            env = ck.test_env(d, "quick")
            env["VERIF_SEED"] = "1"
            n = int((checks or u["quick_checks"]) * u.get("checks_scale", 1))
            prof = os.path.join(tmp, "prof%d.out" % ui)
            cmd = [out, "-test.run", "^(%s)$" % "|".join(u["tests"]), "-test.timeout", "900s", "-rapid.checks=%d" % n,
                   "-rapid.seed=1", "-rapid.nofailfile", "-test.coverprofile=" + prof]
            p = subprocess.run(cmd, cwd=d, env=env, stdout=subprocess.PIPE, stderr=subprocess.STDOUT, text=True)
            if p.returncode != 0:
                print("run failed (rc %d):\n%s" % (p.returncode, p.stdout[-2000:]))
            if os.path.exists(prof):
                profiles.append(prof)
        # merge profiles: max count per block
        blocks = {}
        for prof in profiles:
            for l in open(prof):
                if l.startswith("mode:"):
                    continue
                key, cnt = l.rsplit(" ", 1)
                blocks[key] = max(blocks.get(key, 0), int(cnt))
        merged = os.path.join(tmp, "merged.out")
        with open(merged, "w") as f:
            f.write("mode: set\n")
            for k, v in blocks.items():
                f.write("%s %d\n" % (k, 1 if v else 0))
        p = subprocess.run(["go", "tool", "cover", "-func=" + merged], cwd="/repo", env=ck.go_env(), stdout=subprocess.PIPE, stderr=subprocess.STDOUT, text=True)
        per = {}
        for l in p.stdout.splitlines():
            parts = l.split()
            if len(parts) != 3 or not parts[0].startswith("golang.org/x/net/"):
                continue
            path = parts[0][len("golang.org/x/net/"):].split(":")[0]
            per.setdefault(path, []).append((parts[1], float(parts[2].rstrip("%"))))
        for a in anchors:
            fs = per.get(a)
            if not fs:
                print("%-45s NOT IN PROFILE (never compiled into the check?)" % a)
                continue
            zero = [n for n, c in fs if c == 0]
            # statement coverage of the file from blocks
            tot = cov = 0
            for k, v in blocks.items():
                if k.startswith("golang.org/x/net/" + a + ":"):
                    ns = int(k.rsplit(" ", 1)[1])
                    tot += ns
                    cov += ns if v else 0
            print("%-45s %5.1f%% of %4d statements; %d/%d functions never entered: %s" % (a, 100.0 * cov / max(tot, 1), tot, len(zero), len(fs), " ".join(zero[:40])))
    finally:
        shutil.rmtree(tmp, ignore_errors=True)
    return 0


if __name__ == "__main__":
    sys.exit(main())
