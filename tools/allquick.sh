#!/bin/bash
# runs every claimed check's quick tier once against /repo (fresh evidence); prints non-OK lines
seed=${1:-1}
for id in $(cat /verif/claimed.txt); do
  t0=$(date +%s)
  out=$(VERIF_SEED=$seed ./check $id 2>/dev/null | grep -v "^KNOWN-FINDING" | tail -1)
  echo "$id $(( $(date +%s)-t0 ))s $out"
done
